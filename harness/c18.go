//go:build verif

package sctp

// C18 — write/read API contract: rejected or failed calls have no side effects.

import (
	"context"
	"errors"
	"fmt"
	"io"
	"os"
	"testing"
	"time"
)

type vfAPIProg struct {
	sim  *vfSim
	res  *vfRes
	spec *vfSpec
	wst  *Stream // writer side (A) stream
	rst  *Stream // reader side (B) stream
	key  uint64
	n    int
	ppi  uint32 // payload protocol identifier of the following writes (0: WebRTC binary)
	sent []vfWriteRec
	got  []vfReadRec
}

func (p *vfAPIProg) write(size int, wantErr bool, what string) error {
	msg := vfMakeMsg(p.key, p.n, size)
	ppi := uint32(53)
	if p.ppi != 0 {
		ppi = p.ppi
	}
	rec := vfWriteRec{Idx: p.n, Size: size, PPI: ppi, Hash: vfMsgHash(ppi, msg), Unordered: p.spec.x("unordered", 0) == 1 && ppi != 50}
	p.n++
	n, err := p.wst.WriteSCTP(msg, PayloadProtocolIdentifier(ppi))
	rec.Err, rec.Accepted = err, err == nil
	p.sent = append(p.sent, rec)
	if wantErr && err == nil {
		p.res.violate("C18", "write/"+what+"/accepted", "%s: WriteSCTP of %d bytes returned n=%d, nil", what, size, n)
	}
	if !wantErr && err != nil {
		p.res.violate("C18", "write/"+what+"/rejected", "%s: ordinary WriteSCTP of %d bytes failed: %v", what, size, err)
	}
	if err != nil && n != 0 {
		p.res.violate("C18", "write/"+what+"/n", "%s: WriteSCTP returned n=%d together with error %v", what, n, err)
	}

	return err
}

// readAll reads until `want` messages arrived or the virtual limit passes.
func (p *vfAPIProg) readAll(want int, limit time.Duration) {
	buf := make([]byte, 1<<18)
	_ = p.rst.SetReadDeadline(time.Now().Add(limit))
	for len(p.got) < want {
		n, ppi, err := p.rst.ReadSCTP(buf)
		if err != nil {
			break
		}
		rec := vfReadRec{N: n, PPI: uint32(ppi), Hash: vfMsgHash(uint32(ppi), buf[:n]), T: p.sim.net.now()}
		copy(rec.Head[:], buf[:n])
		p.got = append(p.got, rec)
	}
	_ = p.rst.SetReadDeadline(time.Time{})
}

// verify: what was read is exactly the accepted non-empty writes, in order for ordered streams.
func (p *vfAPIProg) verify(what string) {
	run := &vfStreamRun{cfg: vfStreamCfg{SID: 1, Dir: 0, Unordered: p.spec.x("unordered", 0) == 1}}
	for _, w := range p.sent {
		if w.Size == 0 {
			w.Accepted = false // an empty message is never delivered; it must simply have no effect
			w.Hash = 0
		}
		run.writes = append(run.writes, w)
	}
	run.reads = p.got
	before := p.res.nviol()
	st := vfCheckDelivery(p.res, "C18", run, true)
	if p.res.nviol() > before {
		p.res.witness("%s: sent %d accepted, read %d", what, st.Accepted, st.Delivered)
	}
	p.res.count("c18_programs_verified", 1)
}

// lastDataArrival: delivery instant (to B) of the packet carrying the highest-numbered first transmission.
func (p *vfAPIProg) lastDataArrival() (time.Duration, bool) {
	var at time.Duration
	found := false
	for _, e := range p.sim.net.events() {
		if e.Kind != vfWrDeliver || e.Side != 1 {
			continue
		}
		pk := e.Pkt
		if pk == nil {
			pk = vfDecode(e.Raw)
		}
		for i := range pk.Chunks {
			if c := &pk.Chunks[i]; c.isData() && c.SID == 1 {
				at, found = e.T, true
			}
		}
	}

	return at, found
}

func (p *vfAPIProg) wireMessages() int {
	n := 0
	seen := map[uint32]bool{}
	for _, e := range p.sim.net.events() {
		if e.Kind != vfWrWrite || e.Side != 0 {
			continue
		}
		if e.Pkt == nil {
			e.Pkt = vfDecode(e.Raw)
		}
		for i := range e.Pkt.Chunks {
			c := &e.Pkt.Chunks[i]
			if c.isData() && c.SID == 1 && c.B && !seen[c.TSN] {
				seen[c.TSN] = true
				n++
			}
		}
	}

	return n
}

//nolint:gocognit,cyclop,gocyclo,maintidx
func vfRunAPIProgram(t *testing.T, spec *vfSpec, res *vfRes) {
	vfRunBubble(t, spec.ID, func(t *testing.T) {
		sim := vfNewSim(t, spec, res)
		kind := spec.Kind
		if kind == "not-established" {
			// a stream of an association that never got established (peer silent)
			gen := &vfScriptRand{fallback: vfNewRand(spec.Seed)}
			globalMathRandomGenerator = gen
			gen.push(spec.A.InitTSN, spec.A.Tag|1)
			sim.net.freeze()
			go func() {
				defer close(sim.connDone[0])
				opts := vfOptsFor(&spec.A, sim.net.conns[0], sim.sink, "vfA")
				co := make([]ClientOption, len(opts))
				for i, o := range opts {
					co[i] = o
				}
				a, err := ClientWithOptions(co...)
				sim.mu.Lock()
				sim.connErr[0] = err
				if a != nil {
					sim.assoc[0] = a
				}
				sim.mu.Unlock()
			}()
			close(sim.connDone[1])
			time.Sleep(50 * time.Millisecond)
			a := sim.getAssoc(0)
			if a != nil {
				st, err := a.OpenStream(1, PayloadTypeWebRTCBinary)
				if err == nil && st != nil {
					n, werr := st.WriteSCTP([]byte("too early"), PayloadTypeWebRTCBinary)
					res.count("c18_state_cases", 1)
					if werr == nil {
						res.violate("C18", "write/not-established/accepted", "WriteSCTP on an association in state %d returned n=%d, nil", a.getState(), n)
					}
					if st.BufferedAmount() != 0 {
						res.violate("C18", "write/not-established/buffered", "rejected write left BufferedAmount = %d", st.BufferedAmount())
					}
					a.lock.RLock()
					pend := a.pendingQueue.size()
					a.lock.RUnlock()
					if pend != 0 {
						res.violate("C18", "write/not-established/queued", "rejected write left %d chunk(s) in the pending queue", pend)
					}
				}
			}
			sim.teardown()
			sim.finalLeakCheck()
			res.res.Nontrivial = true
			res.res.Sig = "not-established"
			res.res.Sample = map[string]any{"kind": kind}

			return
		}
		if !sim.start() {
			res.inconclusive("handshake failed")
			sim.teardown()
			sim.finalLeakCheck()

			return
		}
		a, b := sim.A(), sim.B()
		wst, err := a.OpenStream(1, PayloadTypeWebRTCBinary)
		if err != nil {
			res.inconclusive("OpenStream failed")
			sim.teardown()

			return
		}
		unordered := spec.x("unordered", 0) == 1
		wst.SetReliabilityParams(unordered, ReliabilityTypeReliable, 0)
		rst, _ := b.OpenStream(1, PayloadTypeWebRTCBinary)
		p := &vfAPIProg{sim: sim, res: res, spec: spec, wst: wst, rst: rst, key: vfMsgKey(spec.Seed, 0, 1, 0)}
		r := vfNewRand(spec.Seed ^ 0x18)
		maxMsg := int(a.MaxMessageSize())
		ordinary := func(k int) {
			for i := 0; i < k; i++ {
				_ = p.write(vfPickSize("mixed", r, int(a.maxPayloadSize), maxMsg), false, "ordinary")
			}
		}
		pos := spec.x("pos", 1) // how many ordinary messages precede the degenerate call
		nAfter := 2 + r.Intn(3)
		switch kind {
		case "oversize":
			ordinary(int(pos))
			for _, extra := range []int{1, 2, 1000} {
				_ = p.write(maxMsg+extra, true, "oversize")
			}
			ordinary(nAfter)
			p.readAll(int(pos)+nAfter, 2*time.Minute)
			p.verify(kind)
			if wm := p.wireMessages(); wm != int(pos)+nAfter {
				res.violate("C18", "write/oversize/wire", "%d messages started on the wire, %d writes were accepted", wm, int(pos)+nAfter)
			}
			if ba := wst.BufferedAmount(); ba != 0 {
				time.Sleep(2 * time.Second)
				if ba = wst.BufferedAmount(); ba != 0 {
					res.violate("C18", "write/oversize/buffered", "BufferedAmount = %d after everything accepted was delivered and acknowledged", ba)
				}
			}
		case "empty":
			ordinary(int(pos))
			n, werr := wst.WriteSCTP(nil, PayloadTypeWebRTCBinary)
			p.sent = append(p.sent, vfWriteRec{Idx: p.n, Size: 0, Err: werr})
			p.n++
			_ = n
			if r.Intn(2) == 0 {
				_, _ = wst.WriteSCTP([]byte{}, PayloadTypeWebRTCStringEmpty)
			}
			ordinary(nAfter)
			p.readAll(int(pos)+nAfter, 2*time.Minute)
			p.verify(kind)
			if len(p.got) < int(pos)+nAfter {
				res.violate("C18", "write/empty/later-undelivered", "after an empty WriteSCTP (%d ordinary messages before it) only %d of %d ordinary messages were delivered within 2 min of virtual time (ordered=%v, interleaving=%v)", pos, len(p.got), int(pos)+nAfter, !unordered, a.useInterleaving)
			}
			if wm := p.wireMessages(); wm != int(pos)+nAfter {
				res.violate("C18", "write/empty/wire", "%d messages started on the wire, %d non-empty writes were accepted", wm, int(pos)+nAfter)
			}
		case "closed-stream":
			ordinary(int(pos))
			if err := wst.Close(); err != nil {
				res.violate("C18", "close/error", "Stream.Close returned %v", err)
			}
			_ = p.write(100, true, "closed-stream")
			_ = p.write(1, true, "closed-stream")
			p.readAll(int(pos), 2*time.Minute)
			// after the data: EOF
			buf := make([]byte, 65536)
			_ = rst.SetReadDeadline(time.Now().Add(time.Minute))
			_, _, rerr := rst.ReadSCTP(buf)
			if !errors.Is(rerr, io.EOF) {
				res.violate("C14", "reader/wrong-error", "after Close the reader got %v instead of io.EOF", rerr)
			}
			p.verify(kind)
			res.count("c18_state_cases", 1)
		case "shutting-down":
			ordinary(int(pos))
			done := make(chan error, 1)
			go func() {
				ctx, cancel := context.WithTimeout(context.Background(), 10*time.Minute)
				defer cancel()
				ev := sim.apiCall(0, "shutdown", 0)
				err := a.Shutdown(ctx)
				sim.apiRet(ev, 0, err)
				done <- err
			}()
			// the call under test is a write *after* Shutdown has begun: wait until the state says so
			for i := 0; i < 1000 && a.getState() == established; i++ {
				time.Sleep(10 * time.Microsecond)
			}
			time.Sleep(time.Duration(r.Intn(3)) * time.Millisecond)
			_ = p.write(200, true, "shutting-down")
			p.readAll(int(pos), 2*time.Minute)
			<-done
			p.verify(kind)
			res.count("c18_state_cases", 1)
		case "short-read":
			ordinary(int(pos))
			size := 2 + r.Intn(maxMsg-1)
			_ = p.write(size, false, "ordinary")
			ordinary(nAfter)
			p.readAll(int(pos), 2*time.Minute)
			time.Sleep(500 * time.Millisecond)
			for _, bl := range []int{0, 1, size - 1} {
				small := make([]byte, bl)
				n, _, rerr := rst.ReadSCTP(small)
				res.count("c18_short_reads", 1)
				if !errors.Is(rerr, io.ErrShortBuffer) {
					res.violate("C18", "read/short/no-error", "ReadSCTP into a %d-byte buffer for a %d-byte message returned n=%d err=%v", bl, size, n, rerr)
				}
				if n != size {
					res.violate("C18", "read/short/n", "ErrShortBuffer reported n=%d for a %d-byte message", n, size)
				}
			}
			p.readAll(int(pos)+1+nAfter, 2*time.Minute)
			p.verify(kind)
		case "block-drain":
			for k := 0; k < 6+r.Intn(10); k++ {
				size := vfPickSize("big", r, int(a.maxPayloadSize), maxMsg)
				_ = p.write(size, false, "ordinary")
				a.lock.RLock()
				pend := a.pendingQueue.getNumBytes()
				a.lock.RUnlock()
				res.count("c18_block_returns", 1)
				if pend > size {
					res.violate("C18", "blockwrite/not-drained", "WriteSCTP #%d (%d bytes) returned while %d bytes are still in the pending queue: earlier writes were not handed to the transmission queue", k, size, pend)
				}
			}
			p.readAll(len(p.sent), 5*time.Minute)
			p.verify(kind)
		case "block-deadline":
			// the peer does not read and advertises 4 kB: m0 goes in flight, m1 stays in the pending
			// queue, so the gate is closed and the next write blocks until its deadline
			_ = p.write(maxMsg, false, "ordinary")
			time.Sleep(100 * time.Millisecond)
			_ = p.write(maxMsg, false, "ordinary")
			time.Sleep(200 * time.Millisecond)
			a.lock.RLock()
			gate := a.writePending
			a.lock.RUnlock()
			if !gate {
				res.inconclusive("the blocking gate did not close")

				break
			}
			d := time.Duration(spec.x("deadline_us", 50000)) * time.Microsecond
			if spec.x("dcep", 0) == 1 {
				// data-channel control messages are sent ordered also on an unordered stream: the failed one must give
				// its sequence number back all the same
				p.ppi = uint32(PayloadTypeWebRTCDCEP)
			}
			_ = wst.SetWriteDeadline(time.Now().Add(d))
			t0 := sim.net.now()
			werr := p.write(1+r.Intn(maxMsg), true, "block-deadline")
			el := sim.net.now() - t0
			_ = wst.SetWriteDeadline(time.Time{})
			res.count("c18_deadline_writes", 1)
			if werr != nil && el != d {
				res.violate("C18", "blockwrite/deadline-time", "blocking write with a deadline %v ahead returned %v after %v", d, werr, el)
			}
			// the reader wakes up; everything accepted arrives, the failed write never does
			rd := make(chan struct{})
			go func() {
				defer close(rd)
				p.readAll(3, 10*time.Minute)
			}()
			_ = p.write(vfPickSize("mixed", r, int(a.maxPayloadSize), maxMsg), false, "ordinary")
			<-rd
			p.verify(kind)
			time.Sleep(5 * time.Second)
			if ba := wst.BufferedAmount(); ba != 0 {
				res.violate("C18", "blockwrite/deadline-buffered", "BufferedAmount = %d after the failed blocking write was rolled back and everything else acknowledged", ba)
			}
		case "read-deadline":
			ordinary(int(pos))
			p.readAll(int(pos), 2*time.Minute)
			time.Sleep(3 * time.Second) // everything acknowledged: the next write leaves at once
			// arrival instant of the next message: now + one-way delay (virtual time is exact)
			delay := time.Duration(spec.Link.DelayUs) * time.Microsecond
			delta := time.Duration(spec.x("delta_ns", 0))
			size := 1 + r.Intn(int(a.maxPayloadSize)-1) // single chunk: it is readable the instant the packet is processed
			now := time.Now()
			T := now.Add(delay + delta)
			_ = rst.SetReadDeadline(T)
			type rr struct {
				n   int
				err error
				at  time.Duration
			}
			rc := make(chan rr, 1)
			buf := make([]byte, 1<<16)
			t0 := sim.net.now()
			go func() {
				n, _, err := rst.ReadSCTP(buf)
				rc <- rr{n, err, sim.net.now()}
			}()
			_ = p.write(size, false, "ordinary")
			got := <-rc
			res.count("c18_read_deadlines", 1)
			arrival := t0 + delay
			time.Sleep(20 * time.Millisecond) // past the arrival also when the deadline fired first
			if at, ok := p.lastDataArrival(); !ok || at != arrival {
				res.inconclusive(fmt.Sprintf("the message did not arrive at the planned instant (%v, planned %v)", at, arrival))
			}
			switch {
			case got.err == nil:
				if got.at != arrival {
					res.violate("C18", "read/deadline/early-late", "message arrived at %v but ReadSCTP returned it at %v (deadline %v)", arrival, got.at, t0+delay+delta)
				}
				if delta < 0 {
					res.violate("C18", "read/deadline/ignored", "read deadline %v before the arrival of the message was ignored: the read returned the message at %v", -delta, got.at)
				}
				rec := vfReadRec{N: got.n, PPI: 53, Hash: vfMsgHash(53, buf[:got.n]), T: got.at}
				p.got = append(p.got, rec)
			case errors.Is(got.err, os.ErrDeadlineExceeded):
				if got.at != t0+delay+delta {
					res.violate("C18", "read/deadline/time", "read deadline set to %v but the read returned the deadline error at %v", t0+delay+delta, got.at)
				}
				if delta > 0 {
					res.violate("C18", "read/deadline/spurious", "message arrived at %v, %v before the deadline, but the read failed with the deadline error", arrival, delta)
				}
			default:
				res.violate("C18", "read/deadline/error", "ReadSCTP returned %v", got.err)
			}
			_ = rst.SetReadDeadline(time.Time{})
			// a deadline that was set and cleared again must not fire later: a read blocked with no deadline in force
			// returns the next message, not a deadline error at the cancelled instant
			if delta >= 0 && got.err == nil {
				_ = rst.SetReadDeadline(time.Now().Add(300 * time.Millisecond))
				_ = rst.SetReadDeadline(time.Time{})
				rc3 := make(chan rr, 1)
				go func() {
					n, _, err := rst.ReadSCTP(buf)
					rc3 <- rr{n, err, sim.net.now()}
				}()
				time.Sleep(900 * time.Millisecond)
				tw := sim.net.now()
				_ = p.write(1+r.Intn(int(a.maxPayloadSize)-1), false, "ordinary")
				g3 := <-rc3
				res.count("c18_read_deadlines", 1)
				if g3.err != nil {
					res.violate("C18", "read/deadline/cleared-fires", "a read deadline was set and cleared at once; a read blocked afterwards returned %v at %v (message written at %v)", g3.err, g3.at, tw)
				} else {
					p.got = append(p.got, vfReadRec{N: g3.n, PPI: 53, Hash: vfMsgHash(53, buf[:g3.n]), T: g3.at})
				}
			}
			// one deadline, two reads: the first completes before the deadline, the second has to block and must
			// still be woken at that same deadline
			if delta >= 0 && got.err == nil {
				dl := 300 * time.Millisecond
				t1 := sim.net.now()
				_ = rst.SetReadDeadline(time.Now().Add(dl))
				_ = p.write(1+r.Intn(int(a.maxPayloadSize)-1), false, "ordinary")
				n1, _, e1 := rst.ReadSCTP(buf)
				if e1 == nil {
					p.got = append(p.got, vfReadRec{N: n1, PPI: 53, Hash: vfMsgHash(53, buf[:n1]), T: sim.net.now()})
				}
				rc2 := make(chan rr, 1)
				go func() {
					n, _, err := rst.ReadSCTP(buf)
					rc2 <- rr{n, err, sim.net.now()}
				}()
				var g2 rr
				select {
				case g2 = <-rc2:
				case <-time.After(10 * time.Second):
					res.violate("C18", "read/deadline/second-read-hangs", "a read deadline was set, one read returned a message before it, and the next (blocking) read was not woken at the deadline: still blocked 10 s later")
					// unblock it so that the program can go on
					_ = rst.SetReadDeadline(time.Now())
					g2 = <-rc2
					g2.err = nil
					g2.n = -1
				}
				res.count("c18_read_deadlines", 1)
				if g2.n >= 0 {
					if !errors.Is(g2.err, os.ErrDeadlineExceeded) || g2.at != t1+dl {
						res.violate("C18", "read/deadline/second-read", "second read under the same deadline returned (%d, %v) at %v, the deadline was at %v", g2.n, g2.err, g2.at, t1+dl)
					}
				}
				_ = rst.SetReadDeadline(time.Time{})
			}
			ordinary(nAfter)
			p.readAll(len(p.sent), 2*time.Minute)
			p.verify(kind)
		}
		sim.quiesce()
		sim.apiCall(0, "aclose", 0)
		sim.apiCall(1, "aclose", 0)
		sim.teardown()
		time.Sleep(5 * time.Minute)
		sim.finalLeakCheck()
		sim.runMonitors(vfMonCfg{})
		fr := "DATA"
		if spec.A.IL && spec.B.IL {
			fr = "I-DATA"
		}
		res.res.Nontrivial = true
		res.res.Sig = fmt.Sprintf("%s|%s|unord%v|pos%d|d%d|bw%v", kind, fr, unordered, pos, spec.x("delta_ns", 0)+spec.x("deadline_us", 0), spec.A.BlockWrite)
		res.res.Sample = map[string]any{"kind": kind, "framing": fr, "unordered": unordered, "ordinary_before": pos, "written": len(p.sent), "read": len(p.got), "delta_ns": spec.x("delta_ns", 0)}
	})
}

func vfGenAPISpecs(tier string, seed uint64, race bool) []vfSpec {
	var out []vfSpec
	kinds := []string{"oversize", "empty", "closed-stream", "shutting-down", "short-read", "block-drain", "block-deadline", "read-deadline", "not-established"}
	reps := vfTierN(tier, 3, 60)
	if race {
		reps = 1
	}
	idx := 0
	for rep := 0; rep < reps; rep++ {
		for _, kind := range kinds {
			for _, il := range []bool{false, true} {
				for _, unord := range []int64{0, 1} {
					variants := []int64{0}
					switch kind {
					case "read-deadline":
						variants = []int64{-1000000, -1000, -1, 0, 1, 1000, 1000000}
					case "block-deadline":
						variants = []int64{1, 1000, 50000, 1000000}
					case "oversize", "empty":
						variants = []int64{0, 1, 3} // position: first on the stream, after one, after three
					}
					if race && len(variants) > 2 {
						variants = variants[:2]
					}
					for _, v := range variants {
						r := vfNewRand(vfHash(seed, uint64(idx), 0xC18))
						sp := vfSpec{Prop: "C18", Kind: kind, ID: fmt.Sprintf("C18-%s-%d", kind, idx), Seed: r.Uint64()}
						sp.A = vfSideCfg{IL: il, InitTSN: vfPickTSN(r, r.Intn(3)), Tag: r.Uint32() | 1, MaxMsg: uint32(r.Pick(1200, 5000, 20000))} //nolint:gosec
						sp.B = vfSideCfg{IL: il, InitTSN: r.Uint32(), Tag: r.Uint32() | 1, MaxMsg: 20000}
						sp.Link = vfLinkCfg{DelayUs: 10000}
						sp.X = map[string]int64{"unordered": unord, "pos": int64(1 + r.Intn(3))}
						switch kind {
						case "read-deadline":
							sp.X["delta_ns"] = v
						case "block-deadline":
							sp.X["deadline_us"] = v
							sp.X["dcep"] = int64(idx % 2)
							sp.A.BlockWrite = true
							sp.B.RecvBuf = 4096
							sp.A.MaxMsg = 3000
						case "block-drain":
							sp.A.BlockWrite = true
							sp.Link.LossPm = r.Pick(0, 50)
						case "oversize", "empty":
							sp.X["pos"] = v
							// the degenerate call must be harmless in blocking-write mode too (it returns before or
							// after the per-stream write lock is taken)
							sp.A.BlockWrite = idx%2 == 1
						}
						out = append(out, sp)
						idx++
					}
				}
			}
		}
	}

	return out
}

func init() { //nolint:gochecknoinits
	vfRegister(&vfProperty{
		id: "C18",
		list: func(tier string, seed uint64, race bool) []vfSpec {
			out := vfGenAPISpecs(tier, seed, race)
			// real-time scenarios (two writers on one stream in blocking-write mode cannot run in virtual time)
			n := vfTierN(tier, 8, 60)
			if race {
				n = 2
			}
			for i := 0; i < n; i++ {
				r := vfNewRand(vfHash(seed, uint64(i), 0x187))
				sp := vfSpec{Prop: "C18", Kind: "rt-block-deadline", ID: fmt.Sprintf("C18-rt-%d", i), Seed: r.Uint64()}
				sp.A.IL, sp.B.IL = i%2 == 1, i%2 == 1
				sp.X = map[string]int64{"deadline_ms": int64(r.Pick(150, 300, 600))}
				out = append(out, sp)
			}

			return out
		},
		run: func(t *testing.T, spec *vfSpec, res *vfRes) {
			if spec.Kind == "rt-block-deadline" {
				vfRunRTBlockDeadline(t, spec, res)

				return
			}
			vfRunAPIProgram(t, spec, res)
		},
	})
}
