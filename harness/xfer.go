//go:build verif

package sctp

// Generic transfer scenario: handshake, seeded multi-stream workload over a
// faulty link that heals, bounded-progress wait, final accounting, teardown,
// leak check, wire monitors and delivery oracles. Used by most properties.

import (
	"fmt"
	"os"
	"runtime"
	"strings"
	"testing"
	"time"
)

type vfXferOpts struct {
	mon           vfMonCfg
	healAfterWriters bool          // heal the link once all writers returned (else at Link.HealUs)
	resumeAt      time.Duration // resume paused readers this long after establishment (0: when writers done or rwnd 0)
	extraSettle   time.Duration
	onEstablished func(s *vfSim, w *vfWork)
	beforeTeardown func(s *vfSim, w *vfWork)
	afterMonitors func(s *vfSim, w *vfWork, mo *vfMonOut)
	noDrainCheck  bool
	hsProp        string // property charged when a clean handshake fails
}

type vfXferOut struct {
	sim     *vfSim
	work    *vfWork
	mon     *vfMonOut
	drained bool
	stats   []vfDeliveryStats
}

// vfAbortChild flushes the current scenario's verdict and exits the process;
// used when the bubble cannot be left cleanly (leaked goroutines).
func vfAbortChild(reason string) {
	ctx := vfWatchdog.cur.Load()
	if ctx != nil {
		r := ctx.res
		r.mu.Lock()
		out := r.res
		r.mu.Unlock()
		out.Spec = ctx.spec
		if len(out.Violations) > 0 {
			out.Verdict = "violated"
		} else {
			out.Verdict = "inconclusive"
			out.Why = reason
		}
		ctx.sr.Scenarios = append(ctx.sr.Scenarios, out)
		ctx.sr.Done++
		vfWriteShard(ctx.env, ctx.sr)
	}
	fmt.Fprintf(os.Stderr, "VF-ABORT-CHILD %s\n", reason)
	os.Exit(4)
}

func vfRTOMax(c *vfSideCfg) time.Duration {
	if c.RTOMaxMs > 0 {
		return time.Duration(c.RTOMaxMs * float64(time.Millisecond))
	}

	return 60 * time.Second
}

func vfMaxDur(a, b time.Duration) time.Duration {
	if a > b {
		return a
	}

	return b
}

// progress bound of C02 after the heal instant.
func (s *vfSim) healBound() time.Duration {
	rto := vfMaxDur(vfRTOMax(&s.spec.A), vfRTOMax(&s.spec.B))
	out := 0
	for side := 0; side < 2; side++ {
		sn := s.snap(side)
		out += sn.InflightN + sn.PendingN
	}
	rtt := 2 * time.Duration(s.net.cfg.DelayUs) * time.Microsecond

	return 4*rto + time.Duration(out)*4*rtt + 5*time.Second
}

func (s *vfSim) finalLeakCheck() {
	time.Sleep(2 * time.Second)
	s.quiesce()
	leaks := vfLeakedGoroutines()
	if len(leaks) == 0 {
		return
	}
	// give legitimately delayed goroutines (abort flush, deadlines) more time
	time.Sleep(2 * vfMaxDur(vfRTOMax(&s.spec.A), vfRTOMax(&s.spec.B)))
	s.quiesce()
	leaks = vfLeakedGoroutines()
	if len(leaks) == 0 {
		return
	}
	fn := vfFirstSctpFrame(leaks[0])
	if i := strings.Index(fn, "("); i > 0 {
		fn = fn[:i]
	}
	s.res.violate("C09", "leak/"+fn, "%d goroutine(s) with pion/sctp frames survive teardown; first:\n%s", len(leaks), leaks[0])
	for _, l := range leaks {
		s.res.witness("%s", l)
	}
	vfAbortChild("leaked goroutines, bubble cannot end")
}

//nolint:gocognit,cyclop
func vfRunTransfer(t *testing.T, spec *vfSpec, res *vfRes, o vfXferOpts) *vfXferOut {
	t.Helper()
	out := &vfXferOut{}
	vfRunBubble(t, spec.ID, func(t *testing.T) {
		sim := vfNewSim(t, spec, res)
		out.sim = sim
		if !sim.start() {
			hp := o.hsProp
			if hp == "" {
				hp = "C04"
			}
			if !spec.Link.FaultsFromStart && len(spec.Link.Script) == 0 && len(spec.Link.Blackouts) == 0 {
				res.violate(hp, "handshake/failed-clean-link", "handshake failed on a fault-free link: %v / %v", sim.connErr[0], sim.connErr[1])
			} else {
				res.inconclusive(fmt.Sprintf("handshake failed under faults: %v / %v", sim.connErr[0], sim.connErr[1]))
			}
			sim.teardown()
			sim.finalLeakCheck()

			return
		}
		w := sim.newWork()
		out.work = w
		for _, sc := range spec.Streams {
			w.addStream(sc, 0)
		}
		if o.onEstablished != nil {
			o.onEstablished(sim, w)
		}
		hasPaused := false
		for _, sc := range spec.Streams {
			if sc.Reader == "pause" {
				hasPaused = true
			}
		}
		if hasPaused {
			go func() {
				if o.resumeAt > 0 {
					time.Sleep(o.resumeAt)
				} else {
					// resume once some sender sees a closed window, or after 30 s
					for i := 0; i < 3000; i++ {
						time.Sleep(10 * time.Millisecond)
						if sim.snap(0).RWND == 0 || sim.snap(1).RWND == 0 {
							res.seen("zero-window")
							time.Sleep(time.Duration(500+sim.rnd.Intn(3000)) * time.Millisecond)

							break
						}
						select {
						case <-sim.net.pumpDone:
							return
						default:
						}
					}
				}
				w.resumeReaders()
			}()
		}
		writerLimit := 20*time.Minute + sim.healBound()
		if spec.Link.HealUs > 0 {
			// wait for the heal instant or the writers, whichever comes later
			w.waitWriters(time.Duration(spec.Link.HealUs) * time.Microsecond)
			for !sim.net.healed() {
				time.Sleep(10 * time.Millisecond)
			}
		} else {
			w.waitWriters(writerLimit)
			time.Sleep(time.Duration(spec.x("linger_ms", 300)) * time.Millisecond)
			// scripted blackouts are part of the fault prefix: the link counts as healed only after the last one
			for _, b := range spec.Link.Blackouts {
				if end := sim.estabAt + time.Duration(b[2])*time.Microsecond; sim.net.now() < end {
					time.Sleep(end - sim.net.now())
				}
			}
			sim.net.healNow()
		}
		res.count("heal_outstanding", int64(sim.snap(0).InflightN+sim.snap(1).InflightN+sim.snap(0).PendingN+sim.snap(1).PendingN))
		if sim.snap(0).InflightN+sim.snap(1).InflightN > 0 {
			res.seen("outstanding-at-heal")
		}
		healT := sim.net.now()
		bound := sim.healBound()
		if hasPaused {
			bound += 40 * time.Second
		}
		writersOK := w.waitWriters(bound)
		if !o.noDrainCheck {
			out.drained = writersOK && w.waitDrained(bound-(sim.net.now()-healT)+time.Second)
			if out.drained {
				res.count("drained", 1)
			}
			if !out.drained {
				a, b := w.buffered()
				detail := ""
				for _, r := range w.allRuns() {
					if r.nRead.Load() < r.nWrit.Load() && r.cfg.RelType == ReliabilityTypeReliable {
						detail += fmt.Sprintf(" [dir%d sid%d read %d of %d]", r.cfg.Dir, r.cfg.SID, r.nRead.Load(), r.nWrit.Load())
					}
				}
				sa, sb := sim.snap(0), sim.snap(1)
				for side := 0; side < 2; side++ {
					if a := sim.getAssoc(side); a != nil {
						a.lock.RLock()
						res.witness("side %d: t3running=%v t3(nRtos=%d state=%d pending=%d) tlrActive=%v tlrFirstRTT=%v burst=%d/%d willRtxFast=%v inFR=%v ackState=%d writePending=%v rackHead=%v advPeer=%d cumAck=%d nextTSN=%d",
							side, a.t3RTX.isRunning(), a.t3RTX.nRtos, a.t3RTX.state, a.t3RTX.pending, a.tlrActive, a.tlrFirstRTT, a.tlrBurstFirstRTTUnits, a.tlrBurstLaterRTTUnits, a.willRetransmitFast, a.inFastRecovery, a.ackState, a.writePending, a.rackHead != nil, a.advancedPeerTSNAckPoint, a.cumulativeTSNAckPoint, a.myNextTSN)
						for i := 0; i < a.inflightQueue.size() && i < 5; i++ {
							c := a.inflightQueue.chunks.At(i)
							res.witness("  inflight[%d]: tsn=%d sid=%d len=%d nSent=%d acked=%v abandoned=%v retransmit=%v miss=%d since=%v", i, c.tsn, c.streamIdentifier, len(c.userData), c.nSent, c.acked, c.abandoned(), c.retransmit, c.missIndicator, c.since.Sub(sim.net.t0))
						}
						a.lock.RUnlock()
					}
				}
				buf := make([]byte, 1<<20)
				res.witness("%s", string(buf[:runtime.Stack(buf, true)]))
				// a sender that sits on abandoned chunks (advanced peer ack point ahead of the cumulative ack point)
				// while nothing moves has not got its FORWARD-TSN through and is not repeating it: the abandoned
				// message blocks what follows it
				for side, sn := range []vfSnap{sa, sb} {
					if sna32GT(sn.AdvPeer, sn.CumAck) {
						res.violate("C07", "forward/not-repeated", "side %d: %v after the link healed the transfer stands still with the advanced peer ack point (%d) ahead of the cumulative ack point (%d): the FORWARD-TSN for abandoned data was lost and is not sent again", side, sim.net.now()-healT, sn.AdvPeer, sn.CumAck)
					}
				}
				// a reader parked in ReadSCTP although its stream holds a deliverable message was not woken when the
				// message became deliverable; after a FORWARD-TSN moved the cursor that is a message blocked by an
				// abandoned one (C07), otherwise a message that is simply not delivered (C01)
				for _, r := range w.allRuns() {
					r.mu.Lock()
					rs := r.rStream
					r.mu.Unlock()
					if rs == nil || (r.cfg.Reader != "fast" && r.cfg.Reader != "") {
						continue
					}
					rs.lock.RLock()
					ready := rs.reassemblyQueue.isReadable() && vfDeliverable(rs.reassemblyQueue) && rs.readErr == nil
					rs.lock.RUnlock()
					if ready {
						prop := "C01"
					scan:
						for _, e := range sim.net.events() {
							if e.Kind != vfWrDeliver {
								continue
							}
							pk := e.Pkt
							if pk == nil {
								pk = vfDecode(e.Raw)
							}
							for i := range pk.Chunks {
								if t := pk.Chunks[i].Type; t == vfCtForwardTSN || t == vfCtIForwardTSN {
									prop = "C07"

									break scan
								}
							}
						}
						res.violate(prop, "reader/not-woken", "dir %d sid %d: %v after the link healed the reader is still parked in ReadSCTP although its stream holds a complete deliverable message (read %d of %d written): it was not woken when the message became deliverable", r.cfg.Dir, r.cfg.SID, sim.net.now()-healT, r.nRead.Load(), r.nWrit.Load())
					}
				}
				res.violate("C02", "stall/after-heal", "%v after the link healed (bound %v): writers returned=%v, association buffered=%d stream buffered=%d;%s; A: inflight=%d pending=%d cwnd=%d rwnd=%d state=%d; B: inflight=%d pending=%d cwnd=%d rwnd=%d state=%d",
					sim.net.now()-healT, bound, writersOK, a, b, detail, sa.InflightN, sa.PendingN, sa.CWND, sa.RWND, sa.State, sb.InflightN, sb.PendingN, sb.CWND, sb.RWND, sb.State)
			}
		}
		if o.extraSettle > 0 {
			time.Sleep(o.extraSettle)
		}
		sim.quiesce()
		// Even if the run did not drain: a side whose writers returned and which has nothing pending or in flight
		// has had everything acknowledged (or abandoned), so a reliable message of it that was not read is lost,
		// not late.
		var allAcked [2]bool
		idleAtEnd := w.readersIdle()
		for side := 0; side < 2; side++ {
			sn := sim.snap(side)
			allAcked[side] = writersOK && sn.InflightN == 0 && sn.PendingN == 0 && sn.State == established && w.readersIdle()
		}
		vfFinalAccounting(sim, w, out.drained)
		if o.beforeTeardown != nil {
			o.beforeTeardown(sim, w)
		}
		sim.teardown()
		w.waitReaders(10 * time.Second)
		sim.finalLeakCheck()
		out.mon = sim.runMonitors(o.mon)
		for _, r := range w.allRuns() {
			prop := "C01"
			if r.cfg.RelType != ReliabilityTypeReliable || r.cfg.Unordered {
				prop = "C06"
			}
			st := vfCheckDelivery(res, prop, r, out.drained || (allAcked[r.wside] && !o.noDrainCheck))
			out.stats = append(out.stats, st)
			res.count("msgs_written", int64(st.Accepted))
			res.count("msgs_delivered", int64(st.Delivered))
		}
		if idleAtEnd && out.mon != nil {
			vfCheckAckedDelivered(sim, w, out.mon)
		}
		vfCheckLogLines(sim)
		if o.afterMonitors != nil {
			o.afterMonitors(sim, w, out.mon)
		}
		sim.vfDumpTrace()
	})

	return out
}

// vfCheckAckedDelivered: what the receiver acknowledged cumulatively it has received completely and in stream
// order (TSNs follow the writing order within a stream), so with idle readers at the final quiescent point
// every message of a reliable stream whose last fragment lies at or below the highest cumulative TSN the
// receiver ever wrote must have been handed to the reader. Counting is enough: messages are delivered whole.
func vfCheckAckedDelivered(sim *vfSim, w *vfWork, mo *vfMonOut) {
	runs := w.allRuns()
	for _, r := range runs {
		if r.cfg.RelType != ReliabilityTypeReliable {
			continue
		}
		shared := false
		for _, o := range runs {
			if o != r && o.cfg.SID == r.cfg.SID && o.wside == r.wside {
				shared = true // several incarnations of one identifier share the wire numbering
			}
		}
		sh := mo.sh[r.wside]
		if shared || sh == nil || !sh.haveInit {
			continue
		}
		// highest cumulative TSN written by the receiving side
		have := false
		var cum uint32
		for _, e := range sim.net.events() {
			if e.Kind != vfWrWrite || e.Side != 1-r.wside || e.Pkt == nil {
				continue
			}
			for i := range e.Pkt.Chunks {
				if c := &e.Pkt.Chunks[i]; c.Type == vfCtSack && (!have || sna32GT(c.CumTSN, cum)) {
					cum, have = c.CumTSN, true
				}
			}
		}
		if !have {
			continue
		}
		acked := 0
		for tsn, ti := range sh.tx {
			if ti.SID == r.cfg.SID && ti.E && sna32LTE(tsn, cum) && sna32GTE(tsn, sh.initTSN) {
				acked++
			}
		}
		r.mu.Lock()
		delivered := 0
		for _, rd := range r.reads {
			if rd.Err == nil {
				delivered++
			}
		}
		r.mu.Unlock()
		sim.res.count("c01_acked_delivered_checked", 1)
		if acked > delivered {
			sim.res.violate("C01", "deliver/acked-not-delivered", "dir%d/sid%d: the receiver acknowledged cumulatively (TSN %d) the last fragment of %d messages of this reliable stream, but with all readers idle only %d were ever handed to the reader: acknowledged data was lost inside the receiver", r.cfg.Dir, r.cfg.SID, cum, acked, delivered)
		}
	}
}

// vfFinalAccounting: at the final quiescent point of a drained run every
// buffered-amount figure is exactly 0 (C15) and the advertised receive credit
// is back to the configured buffer (C11).
func vfFinalAccounting(sim *vfSim, w *vfWork, drained bool) {
	if !drained {
		return
	}
	res := sim.res
	for side := 0; side < 2; side++ {
		a := sim.getAssoc(side)
		if a == nil {
			continue
		}
		if n := a.BufferedAmount(); n != 0 {
			res.violate("C15", "final/assoc-buffered", "side %d: association BufferedAmount = %d after everything was acknowledged", side, n)
		}
		a.lock.RLock()
		credit := a.getMyReceiverWindowCredit()
		max := a.maxReceiveBufferSize
		var held int
		detail := ""
		for _, s := range a.streams {
			held += s.getNumBytesInReassemblyQueue()
			if s.getNumBytesInReassemblyQueue() > 0 {
				s.lock.RLock()
				detail += vfDescribeReassembly(s.reassemblyQueue)
				s.lock.RUnlock()
			}
		}
		a.lock.RUnlock()
		unread := 0
		for _, r := range w.allRuns() {
			if 1-r.wside == side && r.cfg.Reader == "pause" {
				unread++
			}
		}
		if credit != max && unread == 0 {
			res.violate("C11", "final/credit", "side %d: receive credit %d != buffer %d after the application read everything (%d bytes still counted)%s", side, credit, max, held, detail)
		}
		res.count("c11_final_credit_checked", 1)
	}
	for _, r := range w.allRuns() {
		r.mu.Lock()
		ws := r.wStream
		r.mu.Unlock()
		if ws == nil {
			continue
		}
		if n := ws.BufferedAmount(); n != 0 {
			if vfStreamDetached(sim.getAssoc(r.wside), ws) {
				res.violate("C15", "final/stream-buffered/after-inbound-reset", "dir %d stream %d: Stream.BufferedAmount = %d after everything was acknowledged; the stream had been unregistered by the peer's reset of its direction before the acknowledgement arrived", r.cfg.Dir, r.cfg.SID, n)
			} else {
				res.violate("C15", "final/stream-buffered", "dir %d stream %d: Stream.BufferedAmount = %d after everything was acknowledged", r.cfg.Dir, r.cfg.SID, n)
			}
		}
		res.count("c15_final_stream_checked", 1)
	}
}

// vfCheckLogLines: M-LOG. Error-level lines that can only mean an internal
// inconsistency.
func vfCheckLogLines(sim *vfSim) {
	for _, ln := range sim.sink.lines() {
		switch {
		case strings.Contains(ln, "released buffer size"):
			sim.res.violate("C15", "log/underflow", "error log: %s", ln)
		case strings.Contains(ln, "failed to pop from pending queue"):
			sim.res.violate("C17", "log/pending-pop", "error log: %s", ln)
		}
	}
}

// ---------------------------------------------------------------- config sampling

func vfPickTSN(r *vfRand, class int) uint32 {
	switch class {
	case 0:
		return r.Uint32()
	case 1:
		return ^uint32(0) - uint32(r.Intn(4500)) //nolint:gosec
	case 2:
		return uint32(r.Intn(3))
	case 3:
		return 1<<31 - uint32(r.Intn(3000)) //nolint:gosec
	default:
		return ^uint32(0) - uint32(r.Intn(64)) //nolint:gosec
	}
}

func vfSampleSides(r *vfRand, wrapPm int) (vfSideCfg, vfSideCfg) {
	var cs [2]vfSideCfg
	mtus := []uint32{0, 0, 0, 1200, 576, 1500, 8192, 256, 96}
	bufs := []uint32{0, 0, 0, 65536, 200000, 16384}
	for i := range cs {
		c := &cs[i]
		c.IL = r.Intn(2) == 0
		c.ZC = r.Intn(3) == 0
		c.MTU = mtus[r.Intn(len(mtus))]
		c.RecvBuf = bufs[r.Intn(len(bufs))]
		if r.Intn(3) == 0 {
			c.RTOMaxMs = float64(r.Pick(2000, 5000, 10000))
		}
		if r.Intn(5) == 0 {
			c.MinCwnd = uint32(r.Pick(4000, 8000, 20000)) //nolint:gosec
		}
		cls := 0
		if r.Pm(wrapPm) {
			cls = 1 + r.Intn(4)
		}
		c.InitTSN = vfPickTSN(r, cls)
		c.Tag = r.Uint32() | 1
		if c.IL {
			switch r.Intn(3) {
			case 0:
				c.Sched = "rr"
			case 1:
				c.Sched = "wfq"
				c.Weights = []int{1 + r.Intn(8), 1 + r.Intn(8), 1 + r.Intn(100), 1 + r.Intn(8)}
			}
		}
	}
	// both IL more often, so that I-DATA is exercised in half of the runs
	if r.Intn(2) == 0 {
		cs[1].IL = cs[0].IL
	}

	return cs[0], cs[1]
}

func vfSampleLink(r *vfRand, harsh int) vfLinkCfg {
	l := vfLinkCfg{DelayUs: int64(r.Pick(1000, 10000, 10000, 25000, 50000))}
	switch r.Intn(8 + harsh) {
	case 0:
		// clean
	case 1:
		l.LossPm = 10
	case 2:
		l.LossPm = 50
		l.JitterUs = l.DelayUs / 2
	case 3:
		l.LossPm = 200
	case 4:
		l.DupPm = 100
		l.JitterUs = 3 * l.DelayUs
	case 5:
		l.BurstPm = 20
		l.BurstLen = 2 + r.Intn(12)
	case 6:
		l.SackLossPm = 400
		l.LossPm = 20
	case 7:
		l.JitterUs = 5 * l.DelayUs
	case 8:
		l.LossPm = 100
		l.DupPm = 50
		l.JitterUs = 2 * l.DelayUs
	case 9:
		l.DataLossPm = 300
	default:
		l.LossPm = 400
		l.JitterUs = l.DelayUs
	}

	return l
}

func vfEffMaxMsg(c *vfSideCfg, peer *vfSideCfg, nStreams int, il bool) uint32 {
	maxMsg := uint32(65536)
	buf := peer.RecvBuf
	if buf == 0 {
		buf = initialRecvBufSize
	}
	k := uint32(1)
	if il && nStreams > 1 {
		k = uint32(nStreams) //nolint:gosec
	}
	if buf/k/2 < maxMsg {
		maxMsg = buf / k / 2
	}
	if maxMsg < 64 {
		maxMsg = 64
	}

	return maxMsg
}

func vfDescribeReassembly(r *reassemblyQueue) string {
	out := fmt.Sprintf(" {sid %d nBytes=%d nextSSN=%d nextMID=%d:", r.si, r.getNumBytes(), r.nextSSN, r.nextMID)
	d := func(where string, c *chunkPayloadData) {
		if len(out) < 1500 {
			out += fmt.Sprintf(" %s[tsn=%d ssn=%d mid=%d fsn=%d U=%v B=%v E=%v len=%d]", where, c.tsn, c.streamSequenceNumber, c.messageIdentifier, c.fragmentSequenceNumber, c.unordered, c.beginningFragment, c.endingFragment, len(c.userData))
		}
	}
	for _, set := range r.ordered {
		for _, c := range set.chunks {
			d("ordered", c)
		}
	}
	for _, set := range r.unordered {
		for _, c := range set.chunks {
			d("unordered", c)
		}
	}
	for _, c := range r.unorderedChunks {
		d("unorderedChunks", c)
	}
	for _, set := range r.orderedMID {
		for _, c := range set.chunks {
			d("orderedMID", c)
		}
	}
	for _, set := range r.unorderedMID {
		for _, c := range set.chunks {
			d("unorderedMID", c)
		}
	}
	for _, set := range r.unorderedMIDMap {
		for _, c := range set.chunks {
			d("unorderedMIDMap", c)
		}
	}

	return out + "}"
}

// vfStreamDetached: the association no longer has this Stream object registered under its identifier.
func vfStreamDetached(a *Association, s *Stream) bool {
	if a == nil || s == nil {
		return false
	}
	a.lock.RLock()
	defer a.lock.RUnlock()

	return a.streams[s.streamIdentifier] != s
}
