//go:build verif

package sctp

// C12 — wire codec fidelity.
// (i)   generated chunk structures marshalled through packet.marshal (i.e.
//       through the chunk interface the association uses) must be decoded by
//       the independent decoder to exactly the generated fields, be well
//       formed, and be stable under packet.unmarshal + re-marshal;
// (ii)  bundle independence: a chunk decodes the same alone and inside a bundle;
// (iii) every packet emitted by associations in sim runs (always-on, mon.go),
//       with scenarios that make associations emit every chunk kind.

import (
	"bytes"
	"fmt"
	"strings"
	"testing"
	"time"
)

type vfGenChunk struct {
	c     chunk
	kind  string
	class string // length class of the variable part
	exp   func(d *vfChunk) string // compares decoded chunk with what was generated; "" = equal
}

func vfRandBytes(r *vfRand, n int) []byte {
	b := make([]byte, n)
	for i := range b {
		b[i] = byte(r.Uint64())
	}

	return b
}

func vfLenClass(n int) string {
	switch {
	case n == 0:
		return "len0"
	case n%4 == 0:
		return "len4k"
	default:
		return fmt.Sprintf("len4k+%d", n%4)
	}
}

func vfPickLen(r *vfRand, max int) int {
	switch r.Intn(6) {
	case 0:
		return 0
	case 1:
		return 1 + r.Intn(3)
	case 2:
		return 4 * (1 + r.Intn(8))
	case 3:
		return max
	default:
		return r.Intn(max + 1)
	}
}

//nolint:gocognit,cyclop,gocyclo,maintidx
func vfGenerateChunk(r *vfRand, kind int) vfGenChunk {
	switch kind {
	case 0, 1: // DATA / I-DATA
		n := 1 + vfPickLen(r, 1100)
		data := vfRandBytes(r, n)
		c := &chunkPayloadData{
			tsn: r.Uint32(), streamIdentifier: uint16(r.Uint32()), streamSequenceNumber: uint16(r.Uint32()), //nolint:gosec
			payloadType: PayloadProtocolIdentifier(r.Uint32()), userData: data,
			unordered: r.Intn(2) == 0, beginningFragment: r.Intn(2) == 0, endingFragment: r.Intn(2) == 0, immediateSack: r.Intn(4) == 0,
		}
		if kind == 1 {
			c.iData = true
			c.messageIdentifier = r.Uint32()
			c.fragmentSequenceNumber = r.Uint32()
		}
		cp := *c
		name := "DATA"
		if kind == 1 {
			name = "I-DATA"
		}

		return vfGenChunk{c: c, kind: name, class: vfLenClass(n), exp: func(d *vfChunk) string {
			if d.TSN != cp.tsn || d.SID != cp.streamIdentifier || d.U != cp.unordered || d.B != cp.beginningFragment || d.E != cp.endingFragment || d.I != cp.immediateSack || !bytes.Equal(d.Data, data) {
				return fmt.Sprintf("decoded tsn=%d sid=%d U%v B%v E%v I%v len=%d, generated tsn=%d sid=%d U%v B%v E%v I%v len=%d", d.TSN, d.SID, d.U, d.B, d.E, d.I, len(d.Data), cp.tsn, cp.streamIdentifier, cp.unordered, cp.beginningFragment, cp.endingFragment, cp.immediateSack, n)
			}
			if kind == 0 {
				if d.SSN != cp.streamSequenceNumber || d.PPI != uint32(cp.payloadType) {
					return fmt.Sprintf("decoded ssn=%d ppi=%d, generated ssn=%d ppi=%d", d.SSN, d.PPI, cp.streamSequenceNumber, cp.payloadType)
				}
			} else {
				if d.MID != cp.messageIdentifier {
					return fmt.Sprintf("decoded mid=%d, generated %d", d.MID, cp.messageIdentifier)
				}
				if cp.beginningFragment && d.PPI != uint32(cp.payloadType) {
					return fmt.Sprintf("decoded ppi=%d, generated %d", d.PPI, cp.payloadType)
				}
				if !cp.beginningFragment && d.FSN != cp.fragmentSequenceNumber {
					return fmt.Sprintf("decoded fsn=%d, generated %d", d.FSN, cp.fragmentSequenceNumber)
				}
			}

			return ""
		}}
	case 2: // SACK
		ng, nd := r.Intn(6), r.Intn(5)
		if r.Intn(8) == 0 {
			ng = 20 + r.Intn(200)
		}
		c := &chunkSelectiveAck{cumulativeTSNAck: r.Uint32(), advertisedReceiverWindowCredit: r.Uint32()}
		for i := 0; i < ng; i++ {
			c.gapAckBlocks = append(c.gapAckBlocks, gapAckBlock{start: uint16(r.Uint32()), end: uint16(r.Uint32())}) //nolint:gosec
		}
		for i := 0; i < nd; i++ {
			c.duplicateTSN = append(c.duplicateTSN, r.Uint32())
		}
		cp := *c

		return vfGenChunk{c: c, kind: "SACK", class: fmt.Sprintf("g%dd%d", vfBucket(int64(ng)), vfBucket(int64(nd))), exp: func(d *vfChunk) string {
			if d.CumTSN != cp.cumulativeTSNAck || d.ARwnd != cp.advertisedReceiverWindowCredit || len(d.Gaps) != ng || len(d.Dups) != nd {
				return fmt.Sprintf("decoded cum=%d arwnd=%d gaps=%d dups=%d, generated cum=%d arwnd=%d gaps=%d dups=%d", d.CumTSN, d.ARwnd, len(d.Gaps), len(d.Dups), cp.cumulativeTSNAck, cp.advertisedReceiverWindowCredit, ng, nd)
			}
			for i, g := range cp.gapAckBlocks {
				if d.Gaps[i][0] != g.start || d.Gaps[i][1] != g.end {
					return fmt.Sprintf("gap block %d decoded %v generated %v", i, d.Gaps[i], g)
				}
			}
			for i, t := range cp.duplicateTSN {
				if d.Dups[i] != t {
					return fmt.Sprintf("dup %d decoded %d generated %d", i, d.Dups[i], t)
				}
			}

			return ""
		}}
	case 3, 4: // INIT / INIT-ACK
		common := chunkInitCommon{
			initiateTag: r.Uint32() | 1, advertisedReceiverWindowCredit: 1500 + r.Uint32()%1000000,
			numOutboundStreams: uint16(1 + r.Intn(65535)), numInboundStreams: uint16(1 + r.Intn(65535)), initialTSN: r.Uint32(), //nolint:gosec
		}
		cookieLen := 1 + vfPickLen(r, 200)
		cookie := vfRandBytes(r, cookieLen)
		var ext []chunkType
		for _, t := range []chunkType{ctReconfig, ctForwardTSN, ctIData, ctIForwardTSN} {
			if r.Intn(2) == 0 {
				ext = append(ext, t)
			}
		}
		nParams := 0
		var wantTypes []uint16
		add := func(p param, typ uint16) {
			common.params = append(common.params, p)
			wantTypes = append(wantTypes, typ)
			nParams++
		}
		if kind == 4 {
			add(&paramStateCookie{cookie: cookie}, 7)
		}
		if r.Intn(3) != 0 {
			add(&paramSupportedExtensions{ChunkTypes: ext}, 0x8008)
		}
		edmid := uint32(1)
		if r.Intn(4) == 0 {
			edmid = r.Uint32()
		}
		hasZC := r.Intn(2) == 0
		if hasZC {
			add(&paramZeroChecksumAcceptable{edmid: edmid}, 0x8001)
		}
		if r.Intn(3) == 0 {
			add(&paramForwardTSNSupported{}, 0xC000)
		}
		if r.Intn(3) == 0 {
			add(&paramRandom{randomData: vfRandBytes(r, 1+vfPickLen(r, 40))}, 0x8002)
		}
		var c chunk
		name := "INIT"
		if kind == 3 {
			c = &chunkInit{chunkInitCommon: common}
		} else {
			c = &chunkInitAck{chunkInitCommon: common}
			name = "INIT-ACK"
		}
		cc := common

		return vfGenChunk{c: c, kind: name, class: fmt.Sprintf("p%d/%s", nParams, vfLenClass(cookieLen)), exp: func(d *vfChunk) string {
			if d.InitTag != cc.initiateTag || d.ARwnd != cc.advertisedReceiverWindowCredit || d.OS != cc.numOutboundStreams || d.IS != cc.numInboundStreams || d.InitTSN != cc.initialTSN {
				return fmt.Sprintf("decoded tag=%d arwnd=%d os=%d is=%d tsn=%d, generated tag=%d arwnd=%d os=%d is=%d tsn=%d", d.InitTag, d.ARwnd, d.OS, d.IS, d.InitTSN, cc.initiateTag, cc.advertisedReceiverWindowCredit, cc.numOutboundStreams, cc.numInboundStreams, cc.initialTSN)
			}
			if len(d.Params) != len(wantTypes) {
				return fmt.Sprintf("decoded %d parameters, generated %d", len(d.Params), len(wantTypes))
			}
			for i, wt := range wantTypes {
				if d.Params[i].Type != wt {
					return fmt.Sprintf("parameter %d decoded type %#x generated %#x", i, d.Params[i].Type, wt)
				}
				switch wt {
				case 7:
					if !bytes.Equal(d.Params[i].Val, cookie) {
						return "state cookie differs"
					}
				case 0x8008:
					if len(d.Params[i].Val) != len(ext) {
						return fmt.Sprintf("supported extensions decoded %v generated %v", d.Params[i].Val, ext)
					}
					for j, t := range ext {
						if d.Params[i].Val[j] != byte(t) {
							return fmt.Sprintf("supported extensions decoded %v generated %v", d.Params[i].Val, ext)
						}
					}
				case 0x8001:
					e := vfInitExtensions(d)
					if e.ZeroCsumEDMID != edmid {
						return fmt.Sprintf("zero checksum EDMID decoded %d generated %d", e.ZeroCsumEDMID, edmid)
					}
				}
			}

			return ""
		}}
	case 5, 6: // HEARTBEAT / HEARTBEAT-ACK
		n := vfPickLen(r, 64)
		info := vfRandBytes(r, n)
		var c chunk
		name := "HEARTBEAT"
		if kind == 5 {
			c = &chunkHeartbeat{chunkHeader: chunkHeader{typ: ctHeartbeat}, params: []param{&paramHeartbeatInfo{heartbeatInformation: info}}}
		} else {
			c = &chunkHeartbeatAck{params: []param{&paramHeartbeatInfo{heartbeatInformation: info}}}
			name = "HEARTBEAT-ACK"
		}

		return vfGenChunk{c: c, kind: name, class: vfLenClass(n), exp: func(d *vfChunk) string {
			if len(d.Params) != 1 || d.Params[0].Type != 1 || !bytes.Equal(d.Params[0].Val, info) {
				return fmt.Sprintf("decoded %d parameter(s), generated one heartbeat-info of %d bytes", len(d.Params), n)
			}

			return ""
		}}
	case 7, 8: // ABORT / ERROR
		nc := r.Intn(4)
		if kind == 8 && nc == 0 {
			nc = 1
		}
		var causes []errorCause
		type want struct {
			code uint16
			val  []byte
		}
		var wants []want
		cls := ""
		for i := 0; i < nc; i++ {
			n := vfPickLen(r, 60)
			v := vfRandBytes(r, n)
			cls += vfLenClass(n) + ","
			switch r.Intn(4) {
			case 0:
				causes = append(causes, &errorCauseProtocolViolation{errorCauseHeader: errorCauseHeader{code: protocolViolation}, additionalInformation: v})
				wants = append(wants, want{13, v})
			case 1:
				causes = append(causes, &errorCauseUserInitiatedAbort{upperLayerAbortReason: v})
				wants = append(wants, want{12, v})
			case 2:
				causes = append(causes, &errorCauseUnrecognizedChunkType{unrecognizedChunk: v})
				wants = append(wants, want{6, v})
			default:
				code := uint16(1 + r.Intn(20)) //nolint:gosec
				causes = append(causes, &errorCauseHeader{code: errorCauseCode(code), raw: v})
				wants = append(wants, want{code, v})
			}
		}
		var c chunk
		name := "ABORT"
		if kind == 7 {
			c = &chunkAbort{errorCauses: causes}
		} else {
			c = &chunkError{errorCauses: causes}
			name = "ERROR"
		}

		return vfGenChunk{c: c, kind: name, class: fmt.Sprintf("c%d/%s", nc, cls), exp: func(d *vfChunk) string {
			if len(d.Causes) != len(wants) {
				return fmt.Sprintf("decoded %d causes, generated %d", len(d.Causes), len(wants))
			}
			for i, w := range wants {
				if d.Causes[i].Code != w.code || !bytes.Equal(d.Causes[i].Val, w.val) {
					return fmt.Sprintf("cause %d decoded code=%d len=%d, generated code=%d len=%d", i, d.Causes[i].Code, len(d.Causes[i].Val), w.code, len(w.val))
				}
			}

			return ""
		}}
	case 9:
		cum := r.Uint32()

		return vfGenChunk{c: &chunkShutdown{cumulativeTSNAck: cum}, kind: "SHUTDOWN", class: "fixed", exp: func(d *vfChunk) string {
			if d.CumTSN != cum {
				return fmt.Sprintf("decoded cum %d generated %d", d.CumTSN, cum)
			}

			return ""
		}}
	case 10:
		return vfGenChunk{c: &chunkShutdownAck{}, kind: "SHUTDOWN-ACK", class: "fixed", exp: func(*vfChunk) string { return "" }}
	case 11:
		return vfGenChunk{c: &chunkCookieAck{}, kind: "COOKIE-ACK", class: "fixed", exp: func(*vfChunk) string { return "" }}
	case 12:
		n := 1 + vfPickLen(r, 300)
		ck := vfRandBytes(r, n)

		return vfGenChunk{c: &chunkCookieEcho{cookie: ck}, kind: "COOKIE-ECHO", class: vfLenClass(n), exp: func(d *vfChunk) string {
			if !bytes.Equal(d.Cookie, ck) {
				return fmt.Sprintf("decoded cookie of %d bytes, generated %d", len(d.Cookie), n)
			}

			return ""
		}}
	case 13: // RECONFIG
		mkReq := func() (param, func(vfParam) string, string) {
			ns := vfPickLen(r, 40)
			if r.Intn(8) == 0 {
				ns = 200 + r.Intn(300)
			}
			p := &paramOutgoingResetRequest{reconfigRequestSequenceNumber: r.Uint32(), reconfigResponseSequenceNumber: r.Uint32(), senderLastTSN: r.Uint32()}
			for i := 0; i < ns; i++ {
				p.streamIdentifiers = append(p.streamIdentifiers, uint16(r.Uint32())) //nolint:gosec
			}
			cp := *p
			sids := append([]uint16(nil), p.streamIdentifiers...)

			return p, func(d vfParam) string {
				rq, ok := vfParseResetReq(d)
				if !ok || rq.ReqSeq != cp.reconfigRequestSequenceNumber || rq.RespSeq != cp.reconfigResponseSequenceNumber || rq.LastTSN != cp.senderLastTSN || len(rq.SIDs) != len(sids) {
					return fmt.Sprintf("reset request decoded %+v (ok=%v), generated req=%d resp=%d last=%d nsids=%d", rq, ok, cp.reconfigRequestSequenceNumber, cp.reconfigResponseSequenceNumber, cp.senderLastTSN, len(sids))
				}
				for i := range sids {
					if rq.SIDs[i] != sids[i] {
						return "reset request stream list differs"
					}
				}

				return ""
			}, fmt.Sprintf("req%s", vfLenClass(2*ns))
		}
		mkResp := func() (param, func(vfParam) string, string) {
			p := &paramReconfigResponse{reconfigResponseSequenceNumber: r.Uint32(), result: reconfigResult(r.Intn(7))}
			cp := *p

			return p, func(d vfParam) string {
				seq, res, ok := vfParseResetResp(d)
				if !ok || seq != cp.reconfigResponseSequenceNumber || res != uint32(cp.result) {
					return fmt.Sprintf("reconfig response decoded seq=%d result=%d ok=%v, generated seq=%d result=%d", seq, res, ok, cp.reconfigResponseSequenceNumber, cp.result)
				}

				return ""
			}, "resp"
		}
		c := &chunkReconfig{}
		var checks []func(vfParam) string
		cls := ""
		pick := func() param {
			var p param
			var f func(vfParam) string
			var k string
			if r.Intn(2) == 0 {
				p, f, k = mkReq()
			} else {
				p, f, k = mkResp()
			}
			checks = append(checks, f)
			cls += k + "+"

			return p
		}
		c.paramA = pick()
		if r.Intn(2) == 0 {
			c.paramB = pick()
		}

		return vfGenChunk{c: c, kind: "RECONFIG", class: cls, exp: func(d *vfChunk) string {
			if len(d.Params) != len(checks) {
				return fmt.Sprintf("decoded %d parameters, generated %d", len(d.Params), len(checks))
			}
			for i, f := range checks {
				if m := f(d.Params[i]); m != "" {
					return m
				}
			}

			return ""
		}}
	case 14: // FORWARD-TSN
		ns := r.Intn(6)
		if r.Intn(8) == 0 {
			ns = 50 + r.Intn(200)
		}
		c := &chunkForwardTSN{newCumulativeTSN: r.Uint32()}
		for i := 0; i < ns; i++ {
			c.streams = append(c.streams, chunkForwardTSNStream{identifier: uint16(r.Uint32()), sequence: uint16(r.Uint32())}) //nolint:gosec
		}
		cum := c.newCumulativeTSN
		st := append([]chunkForwardTSNStream(nil), c.streams...)

		return vfGenChunk{c: c, kind: "FORWARD-TSN", class: fmt.Sprintf("s%d", vfBucket(int64(ns))), exp: func(d *vfChunk) string {
			if d.NewCum != cum || len(d.Fwd) != len(st) {
				return fmt.Sprintf("decoded new=%d streams=%d, generated new=%d streams=%d", d.NewCum, len(d.Fwd), cum, len(st))
			}
			for i, s := range st {
				if d.Fwd[i].SID != s.identifier || d.Fwd[i].Seq != uint32(s.sequence) {
					return fmt.Sprintf("stream entry %d decoded %+v generated %+v", i, d.Fwd[i], s)
				}
			}

			return ""
		}}
	default: // I-FORWARD-TSN (distinct (sid, U) keys: marshal normalises duplicates)
		ns := r.Intn(6)
		c := &chunkIForwardTSN{newCumulativeTSN: r.Uint32() | 1}
		seen := map[uint32]bool{}
		for i := 0; i < ns; i++ {
			s := chunkIForwardTSNStream{identifier: uint16(r.Uint32()), unordered: r.Intn(2) == 0, messageIdentifier: r.Uint32()} //nolint:gosec
			k := uint32(s.identifier) << 1
			if s.unordered {
				k |= 1
			}
			if seen[k] {
				continue
			}
			seen[k] = true
			c.streams = append(c.streams, s)
		}
		cum := c.newCumulativeTSN
		st := append([]chunkIForwardTSNStream(nil), c.streams...)

		return vfGenChunk{c: c, kind: "I-FORWARD-TSN", class: fmt.Sprintf("s%d", len(st)), exp: func(d *vfChunk) string {
			if d.NewCum != cum || len(d.Fwd) != len(st) {
				return fmt.Sprintf("decoded new=%d streams=%d, generated new=%d streams=%d", d.NewCum, len(d.Fwd), cum, len(st))
			}
			want := map[vfFwd]bool{}
			for _, s := range st {
				want[vfFwd{SID: s.identifier, Seq: s.messageIdentifier, Unordered: s.unordered}] = true
			}
			for _, f := range d.Fwd {
				if !want[f] {
					return fmt.Sprintf("decoded stream entry %+v was not generated", f)
				}
			}

			return ""
		}}
	}
}

const vfNChunkKinds = 16

func vfMarshalPkt(chunks []chunk, vtag uint32) ([]byte, error) {
	p := &packet{sourcePort: 5000, destinationPort: 5000, verificationTag: vtag, chunks: chunks}

	return p.marshal(true)
}

// vfCodecBatch runs (i) and (ii) on seeded structures.
//
//nolint:gocognit,cyclop
func vfCodecBatch(spec *vfSpec, res *vfRes) {
	r := vfNewRand(spec.Seed)
	n := int(spec.x("n", 2000))
	for i := 0; i < n; i++ {
		// ---- (i) single chunk
		g := vfGenerateChunk(r, r.Intn(vfNChunkKinds))
		res.count("c12_structures", 1)
		vtag := r.Uint32()
		if g.kind == "INIT" {
			vtag = 0
		}
		raw, err := vfMarshalPkt([]chunk{g.c}, vtag)
		if err != nil {
			res.violate("C12", "gen/marshal-error/"+g.kind, "%s (%s): packet.marshal failed: %v", g.kind, g.class, err)

			continue
		}
		d := vfDecode(raw)
		key := g.kind
		if len(d.Malformed) > 0 {
			res.violate("C12", "gen/malformed/"+key, "%s (%s) marshalled through the chunk interface is malformed: %s (bytes %x)", g.kind, g.class, d.Malformed[0], vfHeadBytes(raw))

			continue
		}
		if len(d.Chunks) != 1 || d.Chunks[0].kind() != g.kind {
			res.violate("C12", "gen/kind/"+key, "%s (%s) decodes as %s", g.kind, g.class, vfPktSummary(d))

			continue
		}
		if m := g.exp(&d.Chunks[0]); m != "" {
			res.violate("C12", "gen/fields/"+key, "%s (%s): %s", g.kind, g.class, m)

			continue
		}
		if !d.CsumOK {
			res.violate("C12", "gen/crc/"+key, "%s: packet.marshal(doChecksum) wrote a wrong CRC32c", g.kind)
		}
		vfCheckStabilityGen(res, raw, g.kind+"/"+g.class)
		if g.class != "fixed" && g.class != "len0" {
			res.addSig(g.kind + "|" + g.class + "|single")
		}

		// ---- (ii) bundle independence
		if i%3 == 0 {
			vfBundleCase(r, res)
		}
	}
	res.res.Evals = int64(n) + res.get("c12_bundles")
	res.res.Nontrivial = true
	res.res.Sample = map[string]any{"kind": "codec-batch", "structures": n, "bundles": res.get("c12_bundles"), "chunk_kinds": vfNChunkKinds}
}

func vfHeadBytes(b []byte) []byte {
	if len(b) > 48 {
		return b[:48]
	}

	return b
}

func vfCheckStabilityGen(res *vfRes, raw []byte, kind string) {
	pk := &packet{}
	if err := pk.unmarshal(true, raw); err != nil {
		res.violate("C12", "gen/undecodable/"+kind, "%s: packet.unmarshal rejects what packet.marshal produced: %v", kind, err)

		return
	}
	re, err := pk.marshal(true)
	if err != nil {
		res.violate("C12", "gen/remarshal-error/"+kind, "%s: re-marshal of the decoded packet failed: %v", kind, err)

		return
	}
	if !bytes.Equal(re, raw) {
		k := kind
		if i := strings.Index(kind, "/"); i > 0 {
			k = kind[:i]
		}
		res.violate("C12", "gen/unstable/"+k, "%s: decode + re-encode is not the identity (%d vs %d bytes): %x -> %x", kind, len(re), len(raw), raw, re)
	}
}

// vfBundleCase: unmarshal(bundle)[i] must equal unmarshal(packet with only chunk i).
func vfBundleCase(r *vfRand, res *vfRes) {
	k := 2 + r.Intn(5)
	var gens []vfGenChunk
	for len(gens) < k {
		kind := r.Intn(vfNChunkKinds)
		if kind == 3 || kind == 4 {
			continue // INIT / INIT-ACK are never bundled
		}
		gens = append(gens, vfGenerateChunk(r, kind))
	}
	res.count("c12_bundles", 1)
	chunks := make([]chunk, len(gens))
	names := ""
	for i, g := range gens {
		chunks[i] = g.c
		names += g.kind + "+"
	}
	raw, err := vfMarshalPkt(chunks, 7)
	if err != nil {
		res.violate("C12", "bundle/marshal-error", "bundle %s: marshal failed: %v", names, err)

		return
	}
	pk := &packet{}
	if err := pk.unmarshal(true, raw); err != nil {
		res.violate("C12", "bundle/undecodable", "bundle %s: packet.unmarshal rejects it: %v", names, err)

		return
	}
	if len(pk.chunks) != len(gens) {
		res.violate("C12", "bundle/count", "bundle %s: decoded %d chunks, built from %d", names, len(pk.chunks), len(gens))

		return
	}
	d := vfDecode(raw)
	if len(d.Malformed) > 0 {
		res.violate("C12", "bundle/malformed", "bundle %s is malformed: %s", names, d.Malformed[0])

		return
	}
	for i, g := range gens {
		// independent decoder: position in the bundle must not matter
		if i < len(d.Chunks) {
			if m := g.exp(&d.Chunks[i]); m != "" {
				res.violate("C12", "bundle/fields/"+g.kind, "bundle %s, chunk %d (%s): %s", names, i, g.kind, m)
			}
		}
		// repository decoder: the chunk decoded inside the bundle must re-encode to the bytes it has alone
		alone, err := vfMarshalPkt([]chunk{g.c}, 7)
		if err != nil {
			continue
		}
		pa := &packet{}
		if err := pa.unmarshal(true, alone); err != nil || len(pa.chunks) != 1 {
			continue
		}
		ba, errA := pa.chunks[0].marshal()
		bb, errB := pk.chunks[i].marshal()
		if errA != nil || errB != nil {
			res.violate("C12", "bundle/remarshal-error/"+g.kind, "bundle %s, chunk %d (%s): re-marshal error alone=%v bundled=%v", names, i, g.kind, errA, errB)

			continue
		}
		if !bytes.Equal(ba, bb) {
			pos := "middle"
			if i == len(gens)-1 {
				pos = "last"
			} else if i == 0 {
				pos = "first"
			}
			res.violate("C12", "bundle/dependent/"+g.kind, "bundle %s: chunk %d (%s, %s) decodes differently inside the bundle than alone (re-encodes to %d bytes vs %d): its meaning depends on bytes outside its own length", names, i, g.kind, pos, len(bb), len(ba))
		}
		res.addSig(g.kind + "|" + g.class + "|bundle")
	}
}

// ---- (iii) scenarios that make associations emit every chunk kind

func vfGenEmitSpec(idx int, seed uint64) vfSpec {
	r := vfNewRand(vfHash(seed, uint64(idx), 0xC12))
	var sp vfSpec
	if idx%2 == 0 {
		sp = vfGenPRSpec("C12", idx, seed^0x12)
	} else {
		sp = vfGenTransferSpec("C12", idx, seed^0x12, 1, 100)
	}
	sp.ID = fmt.Sprintf("C12-emit-%d", idx)
	sp.Kind = "emit"
	if sp.X == nil {
		sp.X = map[string]int64{}
	}
	sp.X["heartbeat"] = 1
	sp.X["close_streams"] = int64(r.Intn(2))
	sp.X["abort"] = int64(r.Intn(3)) // 0 none, 1 Abort(reason), 2 protocol violation
	sp.X["reason_len"] = int64(vfPickLen(r, 300))
	sp.X["shutdown"] = int64(r.Intn(2))
	if sp.X["close_streams"] == 1 {
		for i := range sp.Streams {
			sp.Streams[i].Close = true
		}
	}

	return sp
}

func vfRunEmit(t *testing.T, spec *vfSpec, res *vfRes) {
	o := vfXferOpts{mon: vfMonDefault(spec), hsProp: "C04"}
	o.mon.checkAckDelay = false
	o.onEstablished = func(s *vfSim, _ *vfWork) {
		go func() {
			for i := 0; i < 3; i++ {
				time.Sleep(time.Duration(50+s.rnd.Intn(400)) * time.Millisecond)
				if a := s.getAssoc(i % 2); a != nil {
					a.ActiveHeartbeat()
				}
			}
		}()
	}
	o.beforeTeardown = func(s *vfSim, _ *vfWork) {
		// idle long enough for the PTO-idle heartbeat, then a graceful shutdown or an abort
		time.Sleep(3 * time.Second)
		switch {
		case spec.x("abort", 0) == 1:
			reason := string(bytes.Repeat([]byte("r"), int(spec.x("reason_len", 5))))
			ev := s.apiCall(0, "abort", 0)
			s.A().Abort(reason)
			s.apiRet(ev, 0, nil)
			time.Sleep(time.Second)
		case spec.x("abort", 0) == 2:
			// wrong payload kind -> the peer answers with a protocol-violation ABORT
			b := s.B()
			b.lock.RLock()
			vtag, il, tsn := b.myVerificationTag, b.useInterleaving, b.peerLastTSN()+1
			b.lock.RUnlock()
			var raw []byte
			if il {
				raw = vfNewPacket(5000, 5000, vtag).chunk(vfCtData, 3, vfDataVal(tsn, 1, 0, 53, []byte("x"))).bytes(true)
			} else {
				raw = vfNewPacket(5000, 5000, vtag).chunk(vfCtIData, 3, vfIDataVal(tsn, 1, 0, 53, []byte("x"))).bytes(true)
			}
			s.net.inject(1, raw, 0)
			time.Sleep(time.Second)
		case spec.x("shutdown", 0) == 1:
			ctx, cancel := vfCtxTimeout(30 * time.Second)
			ev := s.apiCall(0, "shutdown", 0)
			err := s.A().Shutdown(ctx)
			s.apiRet(ev, 0, err)
			cancel()
			time.Sleep(time.Second)
		}
	}
	out := vfRunTransfer(t, spec, res, o)
	kinds := map[string]bool{}
	if out.sim != nil {
		for _, e := range out.sim.net.events() {
			if e.Kind == vfWrWrite && e.Pkt != nil {
				for i := range e.Pkt.Chunks {
					kinds[e.Pkt.Chunks[i].kind()] = true
				}
			}
		}
	}
	ks := ""
	for _, k := range []string{"INIT", "INIT-ACK", "COOKIE-ECHO", "COOKIE-ACK", "DATA", "I-DATA", "SACK", "HEARTBEAT", "HEARTBEAT-ACK", "ABORT", "ERROR", "RECONFIG", "FORWARD-TSN", "I-FORWARD-TSN", "SHUTDOWN", "SHUTDOWN-ACK", "SHUTDOWN-COMPLETE"} {
		if kinds[k] {
			ks += k + ","
			res.addSig("emitted|" + k)
			res.count("c12_emit_"+k, 1)
		}
	}
	res.res.Nontrivial = true
	res.res.Sample = map[string]any{"kind": "emit-sim", "emitted_chunk_kinds": ks, "packets_checked": res.get("c12_emitted_checked")}
}

func init() { //nolint:gochecknoinits
	vfRegister(&vfProperty{
		id: "C12",
		list: func(tier string, seed uint64, race bool) []vfSpec {
			nb := vfTierN(tier, 56, 2800)
			ns := vfTierN(tier, 140, 2000)
			if race {
				nb, ns = vfTierN(tier, 6, 60), vfTierN(tier, 24, 120)
			}
			var out []vfSpec
			for i := 0; i < nb; i++ {
				out = append(out, vfSpec{Prop: "C12", Kind: "codec-batch", ID: fmt.Sprintf("C12-codec-%d", i), Seed: vfHash(seed, uint64(i), 0xc0dec), X: map[string]int64{"n": 2000}})
			}
			for i := 0; i < ns; i++ {
				out = append(out, vfGenEmitSpec(i, seed))
			}

			return out
		},
		run: func(t *testing.T, spec *vfSpec, res *vfRes) {
			if spec.Kind == "codec-batch" {
				vfCodecBatch(spec, res)

				return
			}
			vfRunEmit(t, spec, res)
		},
	})
}
