//go:build verif

package sctp

// C11 — receive-window accounting is exact and inbound memory is bounded.
// (a) component differential on reassemblyQueue: after every operation the
//     atomic byte counter equals the bytes reachable by walking the queue, and
//     read returns only complete, never-before-returned generated messages;
// (b) in sims: M-INV at every hook + final credit (xfer.go);
// (c) window-ignoring packet-level peer: bounded storage, exact a_rwnd.

import (
	"bytes"
	"errors"
	"fmt"
	"io"
	"testing"
	"time"
)

type vfRQMsg struct {
	unordered bool
	seq       uint32 // ssn or mid
	frags     []*chunkPayloadData
	data      []byte
	delivered int
}

//nolint:gocognit,cyclop,maintidx
func vfRQSequence(res *vfRes, r *vfRand, idata bool, maxEntries uint32, nops int) (sig string, ok bool) {
	const sid = 7
	q := newReassemblyQueue(sid, maxEntries)
	fail := func(key, format string, args ...any) bool {
		res.violate("C11", "rq/"+key, "reassemblyQueue (idata=%v maxEntries=%d): "+format, append([]any{idata, maxEntries}, args...)...)

		return false
	}
	check := func(op string) bool {
		okc := true
		vfCheckReassembly(q, func(key, format string, args ...any) {
			okc = fail("counter/"+key, "after %s: "+format, append([]any{op}, args...)...)
		})

		return okc
	}
	var msgs []*vfRQMsg
	byContent := map[string][]*vfRQMsg{}
	tsn := r.Uint32()
	if r.Intn(2) == 0 {
		tsn = ^uint32(0) - uint32(r.Intn(60)) //nolint:gosec // the sequence crosses the 2^32 TSN wrap
	}
	nextSSN := uint16(r.Pick(0, 0, 65530))  //nolint:gosec
	nextMID := uint32(r.Pick(0, 0, 1<<32-6)) //nolint:gosec
	nextUMID := uint32(r.Intn(5))            //nolint:gosec
	q.nextSSN, q.nextMID = nextSSN, nextMID
	mk := func() *vfRQMsg {
		m := &vfRQMsg{unordered: r.Intn(3) == 0}
		nf := 1 + r.Intn(4)
		if r.Intn(4) == 0 {
			nf = 1
		}
		if m.unordered {
			if idata {
				m.seq = nextUMID
				nextUMID++
			}
		} else if idata {
			m.seq = nextMID
			nextMID++
		} else {
			m.seq = uint32(nextSSN)
			nextSSN++
		}
		ppi := PayloadProtocolIdentifier(r.Uint32())
		for f := 0; f < nf; f++ {
			d := vfRandBytes(r, 1+r.Intn(40))
			c := &chunkPayloadData{
				tsn: tsn, streamIdentifier: sid, unordered: m.unordered, beginningFragment: f == 0, endingFragment: f == nf-1,
				payloadType: ppi, userData: d, iData: idata,
			}
			tsn++
			if idata {
				c.messageIdentifier = m.seq
				c.fragmentSequenceNumber = uint32(f) //nolint:gosec
				c.streamSequenceNumber = uint16(m.seq) //nolint:gosec
				if f > 0 {
					c.payloadType = 0
				}
			} else {
				c.streamSequenceNumber = uint16(m.seq) //nolint:gosec
			}
			m.frags = append(m.frags, c)
			m.data = append(m.data, d...)
		}
		msgs = append(msgs, m)
		byContent[string(m.data)] = append(byContent[string(m.data)], m)

		return m
	}
	kinds := map[string]bool{}
	var pool []*chunkPayloadData // chunks generated but not yet pushed
	pushed := map[*chunkPayloadData]bool{}
	for op := 0; op < nops; op++ {
		switch k := r.Intn(100); {
		case k < 20:
			m := mk()
			pool = append(pool, m.frags...)
		case k < 62: // push a pending chunk (arbitrary order)
			if len(pool) == 0 {
				continue
			}
			i := r.Intn(len(pool))
			if r.Intn(3) == 0 {
				i = 0
			}
			c := pool[i]
			pool = append(pool[:i], pool[i+1:]...)
			cp := *c // the queue keeps the pointer; give it its own copy like the association does
			_, err := q.pushWithError(&cp)
			pushed[c] = true
			if err != nil {
				if maxEntries == 0 {
					return "", fail("push-error", "push returned %v without a limit configured", err)
				}
				kinds["limit"] = true
			}
			if !check("push") {
				return "", false
			}
		case k < 66: // duplicate of a chunk pushed before (the association filters by TSN, but not across wraps)
			kinds["dup"] = true
		case k < 70: // chunk with a wrong stream id
			c := &chunkPayloadData{tsn: tsn, streamIdentifier: sid + 1, beginningFragment: true, endingFragment: true, userData: []byte("x"), iData: idata}
			tsn++
			_, _ = q.pushWithError(c)
			kinds["wrong-sid"] = true
			if !check("push-wrong-sid") {
				return "", false
			}
		case k < 90: // read
			big := r.Intn(4) != 0
			buf := make([]byte, 400)
			if !big {
				buf = make([]byte, r.Intn(30))
				kinds["short-read"] = true
			}
			n, _, err := q.read(buf)
			switch {
			case err == nil:
				got := buf[:n]
				cands := byContent[string(got)]
				var hit *vfRQMsg
				for _, m := range cands {
					if m.delivered == 0 {
						hit = m

						break
					}
				}
				if hit == nil {
					if len(cands) > 0 {
						return "", fail("read-duplicate", "read returned a message a second time (%d bytes)", n)
					}

					return "", fail("read-unknown", "read returned %d bytes that are not one complete generated message", n)
				}
				hit.delivered++
			case errors.Is(err, io.ErrShortBuffer):
				if n <= len(buf) {
					return "", fail("short-n", "ErrShortBuffer with n=%d for a %d-byte buffer", n, len(buf))
				}
				// the message must still be there: a big read returns exactly n bytes next
				b2 := make([]byte, 400)
				n2, _, err2 := q.read(b2)
				if err2 != nil || n2 != n {
					return "", fail("short-lost", "after ErrShortBuffer (n=%d) the next read returned n=%d err=%v", n, n2, err2)
				}
				cands := byContent[string(b2[:n2])]
				found := false
				for _, m := range cands {
					if m.delivered == 0 {
						m.delivered++
						found = true

						break
					}
				}
				if !found {
					return "", fail("short-altered", "message read after ErrShortBuffer is not an undelivered generated message")
				}
			case errors.Is(err, errTryAgain):
			default:
				return "", fail("read-error", "read returned %v", err)
			}
			if !check("read") {
				return "", false
			}
		default: // forward TSN purges
			kinds["purge"] = true
			switch r.Intn(4) {
			case 0:
				if idata {
					q.forwardTSNForOrderedMID(q.nextMID + uint32(r.Intn(3))) //nolint:gosec
				} else {
					last := q.nextSSN + uint16(r.Intn(3)) //nolint:gosec
					var keep []*chunkSet
					for _, set := range q.ordered {
						if sna16GT(set.ssn, last) {
							keep = append(keep, set)
						}
					}
					q.forwardTSNForOrdered(last)
					// post-condition (serial arithmetic): no incomplete set at or below the skipped SSN is left, every
					// set above it is still there
					left := map[*chunkSet]bool{}
					for _, set := range q.ordered {
						left[set] = true
						if !set.isComplete() && sna16LTE(set.ssn, last) {
							return "", fail("purge/ordered-left", "forwardTSNForOrdered(%d) left the incomplete set of SSN %d in the queue", last, set.ssn)
						}
					}
					for _, set := range keep {
						if !left[set] {
							return "", fail("purge/ordered-overreach", "forwardTSNForOrdered(%d) removed the set of SSN %d", last, set.ssn)
						}
					}
				}
			case 1:
				if idata {
					q.forwardTSNForUnorderedMID(nextUMID - uint32(r.Intn(4))) //nolint:gosec
				} else {
					newCum := tsn - uint32(r.Intn(12)) //nolint:gosec
					var keep []*chunkPayloadData
					for _, c := range q.unorderedChunks {
						if sna32GT(c.tsn, newCum) {
							keep = append(keep, c)
						}
					}
					q.forwardTSNForUnordered(newCum)
					left := map[*chunkPayloadData]bool{}
					for _, c := range q.unorderedChunks {
						left[c] = true
						if sna32LTE(c.tsn, newCum) {
							return "", fail("purge/unordered-left", "forwardTSNForUnordered(%d) left the fragment with TSN %d in the queue", newCum, c.tsn)
						}
					}
					for _, c := range keep {
						if !left[c] {
							return "", fail("purge/unordered-overreach", "forwardTSNForUnordered(%d) removed the fragment with TSN %d", newCum, c.tsn)
						}
					}
				}
			case 2:
				// a stale skip (a FORWARD-TSN that was duplicated or overtaken): serially behind the cursor by
				// up to half the number space, so that it is numerically *larger* whenever the cursor is small
				dist := r.Pick(1, 2, 3, 1000, 32767)
				ssn0, mid0 := q.nextSSN, q.nextMID
				if idata {
					q.forwardTSNForOrderedMID(q.nextMID - uint32(dist)) //nolint:gosec // stale
				} else {
					q.forwardTSNForOrdered(q.nextSSN - uint16(dist)) //nolint:gosec
				}
				if q.nextSSN != ssn0 || q.nextMID != mid0 {
					return "", fail("forward/cursor-moved-by-stale-skip", "a skip up to a sequence number %d behind the delivery cursor moved the cursor from SSN %d / MID %d to SSN %d / MID %d: messages from the old cursor on can no longer be delivered and are held for ever", dist, ssn0, mid0, q.nextSSN, q.nextMID)
				}
			default:
				if idata {
					q.forwardTSNForUnorderedMID(nextUMID + 2)
				} else {
					q.forwardTSNForUnordered(tsn + 5)
				}
			}
			if !check("forward-tsn") {
				return "", false
			}
		}
	}
	// drain: everything complete must come out, then the counter must equal what is left reachable
	for i := 0; i < len(msgs)+5; i++ {
		buf := make([]byte, 400)
		n, _, err := q.read(buf)
		if err != nil {
			break
		}
		if len(byContent[string(buf[:n])]) == 0 {
			return "", fail("read-unknown", "drain read returned %d bytes that are not one generated message", n)
		}
	}
	if !check("drain") {
		return "", false
	}
	ks := ""
	for _, k := range []string{"purge", "short-read", "limit", "wrong-sid", "dup"} {
		if kinds[k] {
			ks += k + ","
		}
	}

	return fmt.Sprintf("rq|idata%v|limit%v|%s", idata, maxEntries > 0, ks), kinds["purge"] || kinds["short-read"]
}

func vfRunRQBatch(spec *vfSpec, res *vfRes) {
	r := vfNewRand(spec.Seed)
	n := int(spec.x("seqs", 300))
	for i := 0; i < n; i++ {
		idata := r.Intn(2) == 0
		var lim uint32
		if r.Intn(4) == 0 {
			lim = uint32(2 + r.Intn(12)) //nolint:gosec
		}
		sig, nontrivial := vfRQSequence(res, r, idata, lim, int(spec.x("ops", 150)))
		res.count("c11_rq_sequences", 1)
		if sig == "" {
			break
		}
		if nontrivial {
			res.addSig(sig)
		}
	}
	res.res.Evals = int64(n)
	res.res.Nontrivial = true
	res.res.Sample = map[string]any{"kind": "rq-diff", "sequences": n, "ops_each": spec.x("ops", 150)}
}

// ---------------------------------------------------------------- (c) window-ignoring peer

// vfHeldBytes walks every reassembly queue and returns the bytes reachable and
// the highest / lowest TSN held.
func vfHeldBytes(a *Association) (total int, maxTSN uint32, have bool) {
	a.lock.RLock()
	defer a.lock.RUnlock()
	cum := a.payloadQueue.cumulativeTSN
	for _, s := range a.streams {
		s.lock.RLock()
		r := s.reassemblyQueue
		visit := func(c *chunkPayloadData) {
			total += len(c.userData)
			if !have || sna32GT(c.tsn, maxTSN) {
				maxTSN, have = c.tsn, true
			}
		}
		for _, set := range r.ordered {
			for _, c := range set.chunks {
				visit(c)
			}
		}
		for _, set := range r.unordered {
			for _, c := range set.chunks {
				visit(c)
			}
		}
		for _, c := range r.unorderedChunks {
			visit(c)
		}
		for _, set := range r.orderedMID {
			for _, c := range set.chunks {
				visit(c)
			}
		}
		for _, set := range r.unorderedMID {
			for _, c := range set.chunks {
				visit(c)
			}
		}
		for _, set := range r.unorderedMIDMap {
			for _, c := range set.chunks {
				visit(c)
			}
		}
		s.lock.RUnlock()
	}
	_ = cum

	return total, maxTSN, have
}

//nolint:gocognit,cyclop
func vfRunWindowPuppet(t *testing.T, spec *vfSpec, res *vfRes) {
	vfRunBubble(t, spec.ID, func(t *testing.T) {
		sim := vfNewSim(t, spec, res)
		sim.invEvery = 1
		il := spec.A.IL
		ext := []byte{vfCtReconfig, vfCtForwardTSN}
		if il {
			ext = append(ext, vfCtIData, vfCtIForwardTSN)
		}
		spec.B.IL = il
		p, ok := sim.startWithPuppet(vfPuppetCfg{InitTSN: uint32(spec.x("ptsn", 1000)), Ext: ext}) //nolint:gosec
		if !ok {
			res.violate("C04", "handshake/puppet", "handshake with the packet-level peer failed: %v", sim.connErr[0])
			sim.teardownPuppet(p)

			return
		}
		a := sim.A()
		buf := a.maxReceiveBufferSize
		win := a.payloadQueue.maxTSNOffset
		r := vfNewRand(spec.Seed ^ 0x11)
		r0 := vfNewRand(spec.Seed ^ 0x1f)
		mode := spec.XS["mode"]
		limit := spec.A.MaxReasm
		kind := byte(vfCtData)
		if il {
			kind = vfCtIData
		}
		val := func(tsn uint32, sid uint16, seq uint32, fsn uint32, flags byte, data []byte) []byte {
			if il {
				x := fsn
				if flags&2 != 0 {
					x = 53
				}

				return vfIDataVal(tsn, sid, seq, x, data)
			}

			return vfDataVal(tsn, sid, uint16(seq), 53, data) //nolint:gosec
		}
		if il {
			// An unordered message on a stream the target has never seen is skipped by an I-FORWARD-TSN that covers only
			// its first fragment; the other fragment arrives afterwards (the sender had finished sending the message
			// before it gave up). The target must not keep it: nothing can ever complete it.
			a.lock.RLock()
			cum0 := a.payloadQueue.cumulativeTSN
			a.lock.RUnlock()
			held0, _, _ := vfHeldBytes(a)
			fwd := append(vfU32(cum0+1), 0, 99, 0, 1, 0, 0, 0, 0) // new cumulative TSN, then {sid 99, U flag, MID 0}
			sim.net.inject(0, vfNewPacket(5000, 5000, a.myVerificationTag).chunk(vfCtIForwardTSN, 0, fwd).bytes(true), 0)
			sim.quiesce()
			sim.net.inject(0, vfNewPacket(5000, 5000, a.myVerificationTag).chunk(vfCtIData, 1|4, vfIDataVal(cum0+2, 99, 0, 1, vfRandBytes(r0, 190))).bytes(true), 0)
			sim.quiesce()
			held1, _, _ := vfHeldBytes(a)
			res.count("c11_late_fragment_cases", 1)
			if held1 != held0 {
				res.violate("C11", "puppet/late-fragment-of-skipped-message", "an I-FORWARD-TSN skipped unordered MID 0 of a stream the endpoint did not know yet; the message's last fragment arrived afterwards and is held (%d bytes) although nothing can complete it", held1-held0)
			}
		}
		base := uint32(spec.x("ptsn", 1000)) //nolint:gosec
		nPackets := int(spec.x("packets", 400))
		aborted := false
		storedPerSID := map[uint16]int{} // never-completing entries the target actually stored, per stream
		maxChunk := 1200
		lastSackSeq := sim.net.seq.Load()
		for i := 0; i < nPackets && !aborted; i++ {
			var tsn uint32
			var flags byte = 3
			sid := uint16(1 + r.Intn(3)) //nolint:gosec
			seq := uint32(i)            //nolint:gosec
			fsn := uint32(0)
			size := 200 + r.Intn(900)
			a.lock.RLock()
			cum := a.payloadQueue.cumulativeTSN
			a.lock.RUnlock()
			switch mode {
			case "beyond-window":
				tsn = cum + win + 1 + uint32(r.Intn(5000)) //nolint:gosec
				if r.Intn(3) == 0 {
					tsn = cum + 1 + uint32(r.Intn(int(win))) //nolint:gosec
				}
				flags = 0
			case "fill":
				// in-window but leaving TSN cum+1 missing: nothing can be delivered, the buffer fills up
				tsn = cum + 2 + uint32(i) //nolint:gosec
				flags = 0                 // middle fragments only: never complete
				if r.Intn(6) == 0 {
					tsn = cum + 2 + uint32(r.Intn(i+1)) //nolint:gosec // duplicates / gap fillers
				}
			case "mids":
				tsn = cum + 2 + uint32(i) //nolint:gosec
				flags = 2                 // beginning fragments of ever new messages
				seq = uint32(i * 7)       //nolint:gosec
				sid = 1
				size = 10
			case "unordered-mids":
				tsn = cum + 2 + uint32(i) //nolint:gosec
				flags = 2 | 4
				seq = uint32(i * 3) //nolint:gosec
				sid = 1
				size = 10
			}
			_ = base
			creditBefore := func() uint32 {
				a.lock.RLock()
				defer a.lock.RUnlock()

				return a.getMyReceiverWindowCredit()
			}()
			heldBefore, maxBefore, haveBefore := vfHeldBytes(a)
			raw := vfNewPacket(5000, 5000, a.myVerificationTag).chunk(kind, flags, val(tsn, sid, seq, fsn, flags, vfRandBytes(r, size))).bytes(true)
			sim.net.inject(0, raw, 0)
			sim.quiesce()
			res.count("c11_puppet_packets", 1)
			held, maxT, have := vfHeldBytes(a)
			a.lock.RLock()
			cumNow := a.payloadQueue.cumulativeTSN
			credit := a.getMyReceiverWindowCredit()
			a.lock.RUnlock()
			if have && sna32GT(maxT, cumNow+win) {
				res.violate("C11", "puppet/beyond-window-stored", "a chunk with TSN %d is held although the cumulative point is %d and the tracking window %d", maxT, cumNow, win)
			}
			stored := held > heldBefore
			if stored {
				storedPerSID[sid]++
			}
			if creditBefore == 0 && stored {
				// only gap fillers below the highest TSN already received may be stored at zero window
				if !haveBefore || !sna32LT(tsn, maxBefore) {
					res.violate("C11", "puppet/stored-at-zero-window", "advertised window was 0 but a chunk with TSN %d (highest received before: %d) was stored (%d -> %d bytes held)", tsn, maxBefore, heldBefore, held)
				}
				res.seen("gap-filler-at-zero-window")
			}
			if creditBefore == 0 {
				res.seen("zero-window")
			}
			if uint32(held) > buf+uint32(maxChunk)+win*uint32(maxChunk)/8 && mode != "fill" { //nolint:gosec
				res.violate("C11", "puppet/unbounded", "%d bytes held with a %d-byte receive buffer", held, buf)
			}
			if mode == "fill" && creditBefore == 0 && held > heldBefore+maxChunk {
				res.violate("C11", "puppet/grew-at-zero", "held bytes grew from %d to %d with a zero window", heldBefore, held)
			}
			wantCredit := uint32(0)
			if uint32(held) < buf { //nolint:gosec
				wantCredit = buf - uint32(held) //nolint:gosec
			}
			if credit != wantCredit {
				res.violate("C11", "puppet/credit", "receive credit %d != buffer %d - held %d", credit, buf, held)
			}
			// every SACK written since the previous packet advertises exactly the credit at this quiescent point
			for _, e := range sim.net.events() {
				if e.Seq <= lastSackSeq || e.Kind != vfWrWrite || e.Side != 0 {
					continue
				}
				if e.Pkt == nil {
					e.Pkt = vfDecode(e.Raw)
				}
				for ci := range e.Pkt.Chunks {
					c := &e.Pkt.Chunks[ci]
					switch c.Type {
					case vfCtSack:
						res.count("c11_arwnd_checked", 1)
						if c.ARwnd != credit {
							res.violate("C11", "puppet/arwnd", "SACK advertises a_rwnd %d but buffer - held = %d (buffer %d, held %d)", c.ARwnd, credit, buf, held)
						}
					case vfCtAbort:
						aborted = true
					}
				}
			}
			lastSackSeq = sim.net.seq.Load()
			if a.getState() == closed {
				aborted = true
			}
		}
		if limit > 0 && (mode == "mids" || mode == "unordered-mids" || mode == "fill") {
			res.count("c11_limit_cases", 1)
			// if the window closed first, later chunks were dropped before they could reach the entry limit
			// the limit is per stream and counts entries that were stored (duplicates and gap fillers are not)
			most := 0
			for _, n := range storedPerSID {
				if n > most {
					most = n
				}
			}
			if !aborted && !res.has("zero-window") && most > int(limit) {
				res.violate("C11", "puppet/no-abort-at-limit", "reassembly entry limit %d configured, one stream stored %d never-completing entries (of %d packets) without an ABORT", limit, most, nPackets)
			}
		} else if aborted && limit == 0 {
			res.violate("C11", "puppet/abort-without-limit", "association aborted although no reassembly limit is configured (mode %s)", mode)
		}
		sim.teardownPuppet(p)
		sim.finalLeakCheck()
		res.res.Nontrivial = res.has("zero-window") || mode != "fill"
		res.res.Sig = fmt.Sprintf("puppet|%s|il%v|buf%d|limit%d|%s", mode, il, buf, limit, res.mechs())
		res.res.Sample = map[string]any{"kind": "window-puppet", "mode": mode, "interleaving": il, "buffer": buf, "tracking_window": win, "entry_limit": limit, "packets": res.get("c11_puppet_packets"), "arwnd_checked": res.get("c11_arwnd_checked")}
	})
}

var _ = bytes.Equal
var _ = time.Second

func init() { //nolint:gochecknoinits
	vfRegister(&vfProperty{
		id: "C11",
		list: func(tier string, seed uint64, race bool) []vfSpec {
			var out []vfSpec
			nb := vfTierN(tier, 70, 3400)
			np := vfTierN(tier, 64, 1000)
			ns := vfTierN(tier, 120, 1500)
			if race {
				nb, np, ns = 3, 8, vfTierN(tier, 20, 100)
			}
			for i := 0; i < nb; i++ {
				out = append(out, vfSpec{Prop: "C11", Kind: "rq-diff", ID: fmt.Sprintf("C11-rq-%d", i), Seed: vfHash(seed, uint64(i), 0xc11), X: map[string]int64{"seqs": 300, "ops": 150}})
			}
			modes := []string{"beyond-window", "fill", "mids", "unordered-mids"}
			for i := 0; i < np; i++ {
				r := vfNewRand(vfHash(seed, uint64(i), 0xC11F))
				sp := vfSpec{Prop: "C11", Kind: "window-puppet", ID: fmt.Sprintf("C11-puppet-%d", i), Seed: r.Uint64()}
				sp.A = vfSideCfg{IL: (i/4)%2 == 1, InitTSN: r.Uint32(), Tag: r.Uint32() | 1, RecvBuf: uint32(r.Pick(1500, 8192, 65536, 200000, 0, 300000, 400000, 1048576))} //nolint:gosec
				if (i/8)%2 == 1 {
					sp.A.MaxReasm = uint32(r.Pick(4, 16, 64)) //nolint:gosec
				}
				sp.Link = vfLinkCfg{DelayUs: 1000}
				mode := modes[i%4]
				if (mode == "mids" || mode == "unordered-mids") && !sp.A.IL && mode == "unordered-mids" {
					mode = "fill"
				}
				sp.X = map[string]int64{"packets": int64(r.Pick(200, 400)), "ptsn": int64(vfPickTSN(r, r.Intn(3)))}
				sp.XS = map[string]string{"mode": mode}
				out = append(out, sp)
			}
			for i := 0; i < ns; i++ {
				sp := vfGenPRSpec("C11", i, seed^0x1111)
				sp.ID = fmt.Sprintf("C11-sim-%d", i)
				if i%3 == 2 {
					// interleaving, unordered partially reliable multi-fragment messages over a reordering and
					// duplicating link: fragments of abandoned messages arrive after the I-FORWARD-TSN that skipped them
					r := vfNewRand(vfHash(seed, uint64(i), 0x1a7e))
					sp.A.IL, sp.B.IL = true, true
					for k := range sp.Streams {
						sp.Streams[k].Unordered = true
						sp.Streams[k].RelType, sp.Streams[k].RelVal = ReliabilityTypeRexmit, uint32(r.Pick(0, 0, 1)) //nolint:gosec
						sp.Streams[k].SizeMode = []string{"mixed", "boundary", "big"}[r.Intn(3)]
						sp.Streams[k].DCEPEvery = 0
						sp.Streams[k].Mix = false
					}
					sp.Link.LossPm, sp.Link.DataLossPm, sp.Link.BurstPm = r.Pick(50, 100, 200), 0, 0
					sp.Link.DupPm = r.Pick(30, 100)
					sp.Link.JitterUs = sp.Link.DelayUs * int64(r.Pick(2, 4, 8))
					sp.A.MaxMsg = vfEffMaxMsg(&sp.A, &sp.B, len(sp.Streams), true)
					sp.B.MaxMsg = vfEffMaxMsg(&sp.B, &sp.A, len(sp.Streams), true)
				}
				out = append(out, sp)
			}

			return out
		},
		run: func(t *testing.T, spec *vfSpec, res *vfRes) {
			switch spec.Kind {
			case "rq-diff":
				vfRunRQBatch(spec, res)
			case "window-puppet":
				vfRunWindowPuppet(t, spec, res)
			default:
				vfRunPR(t, spec, res)
				res.res.Nontrivial = res.has("abandoned") || res.has("dup-delivered")
				res.res.Sig = "sim|" + spec.Kind + "|" + res.mechs()
				res.res.Sample = map[string]any{"kind": "sim", "scenario": spec.Kind, "final_credit_checked": res.get("c11_final_credit_checked"), "inv_walks": res.get("inv_walks")}
			}
		},
	})
}
