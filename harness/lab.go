//go:build verif

package sctp

// Injection lab: deep state snapshots of a live association and single-packet
// probes at quiescent points (virtual time frozen), used by C03 and C13.

import (
	"fmt"
	"sort"
	"strings"
)

// vfDeepState returns a flat description of association state. With full=false
// only transfer state is included (what C03 requires to be untouched by an
// invalid packet); with full=true also control state, timers' logical state and
// statistics that change only when a packet is processed.
//
//nolint:cyclop
func vfDeepState(a *Association, full bool) map[string]string {
	m := map[string]string{}
	a.lock.RLock()
	defer a.lock.RUnlock()
	m["state"] = fmt.Sprint(a.getState())
	m["myNextTSN"] = fmt.Sprint(a.myNextTSN)
	m["cumAck"] = fmt.Sprint(a.cumulativeTSNAckPoint)
	m["advPeer"] = fmt.Sprint(a.advancedPeerTSNAckPoint)
	m["inflightN"] = fmt.Sprint(a.inflightQueue.size())
	m["inflightB"] = fmt.Sprint(a.inflightQueue.getNumBytes())
	m["pendingN"] = fmt.Sprint(a.pendingQueue.size())
	m["pendingB"] = fmt.Sprint(a.pendingQueue.getNumBytes())
	var sb strings.Builder
	for i := 0; i < a.inflightQueue.size(); i++ {
		c := a.inflightQueue.chunks.At(i)
		fmt.Fprintf(&sb, "%d:%d:%v:%v;", c.tsn, len(c.userData), c.acked, c.abandoned())
	}
	m["inflight"] = fmt.Sprint(vfHashBytes([]byte(sb.String())))
	m["peerLastTSN"] = fmt.Sprint(a.payloadQueue.cumulativeTSN)
	m["recvTail"] = fmt.Sprint(a.payloadQueue.tailTSN)
	m["recvHeld"] = fmt.Sprint(a.payloadQueue.chunkSize)
	h := uint64(0)
	for _, w := range a.payloadQueue.tsnBitmask {
		h = vfHash(h, w)
	}
	m["recvBitmap"] = fmt.Sprint(h)
	sids := make([]int, 0, len(a.streams))
	for sid := range a.streams {
		sids = append(sids, int(sid))
	}
	sort.Ints(sids)
	m["streams"] = fmt.Sprint(sids)
	for _, sid := range sids {
		s := a.streams[uint16(sid)] //nolint:gosec
		s.lock.RLock()
		r := s.reassemblyQueue
		m[fmt.Sprintf("s%d", sid)] = fmt.Sprintf("nBytes=%d nextSSN=%d nextMID=%d ord=%d unord=%d uchunks=%d omid=%d umid=%d umap=%d buffered=%d seq=%d omidn=%d umidn=%d readErr=%v st=%d",
			r.getNumBytes(), r.nextSSN, r.nextMID, len(r.ordered), len(r.unordered), len(r.unorderedChunks), len(r.orderedMID), len(r.unorderedMID), len(r.unorderedMIDMap),
			s.bufferedAmount, s.sequenceNumber, s.nextOrderedMID, s.nextUnorderedMID, s.readErr, s.state)
		s.lock.RUnlock()
	}
	if !full {
		return m
	}
	m["cwnd"] = fmt.Sprint(a.CWND())
	m["rwnd"] = fmt.Sprint(a.RWND())
	m["ssthresh"] = fmt.Sprint(a.ssthresh)
	m["inFR"] = fmt.Sprint(a.inFastRecovery)
	m["peerVTag"] = fmt.Sprint(a.peerVerificationTag)
	m["myVTag"] = fmt.Sprint(a.myVerificationTag)
	m["il"] = fmt.Sprint(a.useInterleaving, a.useForwardTSN, a.useIForwardTSN, a.peerInterleaving, a.peerForwardTSN, a.peerIForwardTSN)
	m["zc"] = fmt.Sprint(a.sendZeroChecksum, a.recvZeroChecksum)
	m["ackState"] = fmt.Sprint(a.ackState)
	m["will"] = fmt.Sprint(a.willSendForwardTSN, a.willRetransmitFast, a.willRetransmitReconfig, a.willSendShutdown, a.willSendShutdownAck, a.willSendShutdownComplete, a.willSendAbort)
	m["reconfigs"] = fmt.Sprint(len(a.reconfigs), len(a.reconfigRequests), a.myNextRSN)
	m["control"] = fmt.Sprint(a.controlQueue.size())
	m["srtt"] = fmt.Sprint(a.SRTT())
	m["rto"] = fmt.Sprint(a.rtoMgr.getRTO())
	m["stats"] = fmt.Sprint(a.stats.getNumPacketsReceived(), a.stats.getNumDATAs(), a.stats.getNumSACKsReceived(), a.stats.getNumSACKsSent(), a.stats.getNumT3Timeouts(), a.stats.getNumAckTimeouts(), a.stats.getNumFastRetrans())
	m["ports"] = fmt.Sprint(a.sourcePort, a.destinationPort)
	m["cookie"] = fmt.Sprint(a.myCookie != nil, a.storedInit != nil, a.storedCookieEcho != nil)
	m["maxStreams"] = fmt.Sprint(a.myMaxNumInboundStreams, a.myMaxNumOutboundStreams)
	m["mtu"] = fmt.Sprint(a.MTU(), a.maxPayloadSize)
	m["rack"] = fmt.Sprint(a.rackReorderingSeen, a.rackHighestDeliveredOrigTSN, a.rackReoWnd, a.rackMinRTT)
	m["tlr"] = fmt.Sprint(a.tlrActive, a.tlrFirstRTT, a.tlrEndTSN, a.tlrBurstFirstRTTUnits, a.tlrBurstLaterRTTUnits)
	m["timers"] = fmt.Sprint(a.t1Init.isRunning(), a.t1Cookie.isRunning(), a.t2Shutdown.isRunning(), a.t3RTX.isRunning(), a.tReconfig.isRunning(), a.ackTimer.isRunning())

	return m
}

func vfDiffState(a, b map[string]string) string {
	var keys []string
	for k := range a {
		if b[k] != a[k] {
			keys = append(keys, k)
		}
	}
	for k := range b {
		if _, ok := a[k]; !ok {
			keys = append(keys, k)
		}
	}
	sort.Strings(keys)
	var sb strings.Builder
	for _, k := range keys {
		fmt.Fprintf(&sb, "%s: %q -> %q; ", k, a[k], b[k])
	}

	return sb.String()
}

type vfProbeResult struct {
	diff      string // "" if the deep state is unchanged
	replies   []*vfWireEv
	processed bool // packet got past unmarshal/checkPacket (packets-received counter moved)
	closed    bool
}

// probe injects raw into side and reports what changed. The link must be
// frozen or idle and the caller must not let virtual time advance.
func (s *vfSim) probe(side int, raw []byte, full bool) vfProbeResult {
	a := s.getAssoc(side)
	s.quiesce()
	// Anything the write loop would send on its next wake-up anyway (pending data that the burst limit held
	// back) is sent now, so that it is not mistaken for an effect of the probe packet.
	for i := 0; i < 64; i++ {
		st := vfDeepState(a, false)
		a.lock.Lock()
		a.awakeWriteLoop()
		a.lock.Unlock()
		s.quiesce()
		if vfDiffState(st, vfDeepState(a, false)) == "" {
			break
		}
	}
	before := vfDeepState(a, full)
	nBefore := a.stats.getNumPacketsReceived()
	mark := s.net.seq.Load()
	s.net.inject(side, raw, 0)
	s.quiesce()
	after := vfDeepState(a, full)
	var pr vfProbeResult
	pr.diff = vfDiffState(before, after)
	pr.processed = a.stats.getNumPacketsReceived() != nBefore
	pr.closed = a.getState() == closed
	for _, e := range s.net.events() {
		if e.Seq > mark && e.Kind == vfWrWrite && e.Side == side {
			pr.replies = append(pr.replies, e)
		}
	}

	return pr
}

// deliveredTo returns the raw packets delivered so far to side (the corpus).
func (s *vfSim) deliveredTo(side int) [][]byte {
	var out [][]byte
	for _, e := range s.net.events() {
		if e.Kind == vfWrDeliver && e.Side == side {
			out = append(out, e.Raw)
		}
	}

	return out
}
