//go:build verif

package sctp

// C05 — selective acknowledgements tell the truth.
// (a) reference-model differential of receivePayloadQueue against a set-based
//     model, over window sizes, base TSNs (incl. the 2^32 wrap) and operation
//     sequences that follow the association's calling contract;
// (b) wire monitor (vfCheckSackSound, always on) + completeness in lock-step
//     runs, on transfer scenarios biased to gaps, duplicates and FORWARD-TSN.

import (
	"fmt"
	"sort"
	"testing"
)

// vfRPQModel is the reference: a set of TSNs above the cumulative point.
type vfRPQModel struct {
	cum    uint32
	maxOff uint32
	set    map[uint32]bool
	dups   []uint32
}

func (m *vfRPQModel) canPush(t uint32) bool {
	return sna32GT(t, m.cum) && sna32LTE(t, m.cum+m.maxOff) && !m.set[t]
}

func (m *vfRPQModel) push(t uint32) bool {
	if sna32GT(t, m.cum+m.maxOff) {
		return false
	}
	if sna32LTE(t, m.cum) || m.set[t] {
		m.dups = append(m.dups, t)

		return false
	}
	m.set[t] = true

	return true
}

func (m *vfRPQModel) pop(force bool) bool {
	if m.set[m.cum+1] {
		delete(m.set, m.cum+1)
		m.cum++

		return true
	}
	if force {
		m.cum++
	}

	return false
}

func (m *vfRPQModel) advance(c uint32) {
	if !sna32LT(m.cum, c) {
		return
	}
	for t := range m.set {
		if sna32LTE(t, c) {
			delete(m.set, t)
		}
	}
	m.cum = c
}

func (m *vfRPQModel) sorted() []uint32 {
	out := make([]uint32, 0, len(m.set))
	for t := range m.set {
		out = append(out, t)
	}
	sort.Slice(out, func(i, j int) bool { return out[i]-m.cum < out[j]-m.cum })

	return out
}

func (m *vfRPQModel) gaps() [][2]uint16 {
	ts := m.sorted()
	var out [][2]uint16
	for i := 0; i < len(ts); {
		j := i
		for j+1 < len(ts) && ts[j+1] == ts[j]+1 {
			j++
		}
		out = append(out, [2]uint16{uint16(ts[i] - m.cum), uint16(ts[j] - m.cum)}) //nolint:gosec
		i = j + 1
	}

	return out
}

func (m *vfRPQModel) last() (uint32, bool) {
	ts := m.sorted()
	if len(ts) == 0 {
		return 0, false
	}

	return ts[len(ts)-1], true
}

func vfBaseClass(base uint32, win uint32) string {
	switch {
	case base >= ^uint32(0)-win-64:
		return "wrap"
	case base < 64:
		return "zero"
	case base > 1<<31-win && base < 1<<31+win:
		return "half"
	default:
		return "rand"
	}
}

// vfRPQSequence runs one operation sequence on the real queue and the model.
//
//nolint:gocognit,cyclop
func vfRPQSequence(res *vfRes, r *vfRand, win uint32, base uint32, nops int) (maxGaps int, ok bool) {
	q := newReceivePayloadQueue(win)
	q.init(base)
	m := &vfRPQModel{cum: base, maxOff: q.maxTSNOffset, set: map[uint32]bool{}}
	ctx := func() string {
		return fmt.Sprintf("win=%d words=%d base=%d cum=%d held=%d", win, len(q.tsnBitmask), base, m.cum, len(m.set))
	}
	fail := func(key, format string, args ...any) bool {
		res.violate("C05", "rpq/"+key, "receivePayloadQueue differs from set model (%s): "+format, append([]any{ctx()}, args...)...)

		return false
	}
	spread := []uint32{4, 64, 130, win / 2, win, win + 10}
	for op := 0; op < nops; op++ {
		switch k := r.Intn(100); {
		case k < 55: // arrival of a DATA chunk: canPush then push (the association's contract)
			sp := spread[r.Intn(len(spread))]
			var t uint32
			switch r.Intn(8) {
			case 0:
				t = m.cum - uint32(r.Intn(5)) //nolint:gosec // at or behind the cumulative point
			case 1:
				t = m.cum + 1
			default:
				t = m.cum + 1 + uint32(r.Intn(int(sp)+1)) //nolint:gosec
			}
			cq, cm := q.canPush(t), m.canPush(t)
			if cq != cm {
				return maxGaps, fail("canPush", "canPush(%d) = %v, model %v", t, cq, cm)
			}
			if cq {
				pq, pm := q.push(t), m.push(t)
				if pq != pm {
					return maxGaps, fail("push", "push(%d) = %v, model %v", t, pq, pm)
				}
			} else if r.Intn(3) == 0 {
				// the association does not call push for a refused chunk, but handleData's duplicate
				// bookkeeping goes through push in older call paths; exercise dup recording
				pq, pm := q.push(t), m.push(t)
				if pq != pm {
					return maxGaps, fail("push-dup", "push(%d) = %v, model %v", t, pq, pm)
				}
			}
			// handlePeerLastTSNAndAcknowledgement: pop while possible
			for {
				a, b := q.pop(false), m.pop(false)
				if a != b {
					return maxGaps, fail("pop", "pop(false) = %v, model %v", a, b)
				}
				if !a {
					break
				}
			}
		case k < 65: // FORWARD-TSN
			var c uint32
			switch r.Intn(4) {
			case 0:
				c = m.cum - uint32(r.Intn(3)) //nolint:gosec
			case 1:
				c = m.cum + 1 + uint32(r.Intn(int(win))) //nolint:gosec
			default:
				c = m.cum + 1 + uint32(r.Intn(200)) //nolint:gosec
			}
			if sna32GT(c, m.cum) {
				q.advanceCumulativeTSN(c)
				m.advance(c)
				for {
					a, b := q.pop(false), m.pop(false)
					if a != b {
						return maxGaps, fail("pop-after-advance", "pop(false) = %v, model %v after advance to %d", a, b, c)
					}
					if !a {
						break
					}
				}
			}
		case k < 70:
			dq, dm := q.popDuplicates(), m.dups
			m.dups = nil
			if len(dq) != len(dm) {
				return maxGaps, fail("dups", "popDuplicates = %v, model %v", dq, dm)
			}
			for i := range dq {
				if dq[i] != dm[i] {
					return maxGaps, fail("dups", "popDuplicates = %v, model %v", dq, dm)
				}
			}
		default: // SACK construction
		}
		// queries after every operation
		if q.getcumulativeTSN() != m.cum {
			return maxGaps, fail("cum", "cumulativeTSN = %d, model %d", q.getcumulativeTSN(), m.cum)
		}
		if q.size() != len(m.set) {
			return maxGaps, fail("size", "size = %d, model %d", q.size(), len(m.set))
		}
		lq, okq := q.getLastTSNReceived()
		lm, okm := m.last()
		if okq != okm || (okq && lq != lm) {
			return maxGaps, fail("last", "getLastTSNReceived = %d,%v, model %d,%v", lq, okq, lm, okm)
		}
		// gap ack block offsets are 16 bits on the wire: an accepted TSN further than 65535 from the cumulative
		// point cannot be reported truthfully by any SACK
		for t := range m.set {
			if t-m.cum > 65535 {
				return maxGaps, fail("unreportable", "TSN %d was accepted %d ahead of the cumulative TSN %d (tracking window %d): no gap ack block can name it", t, t-m.cum, m.cum, win)
			}
		}
		gq := q.getGapAckBlocks()
		gm := m.gaps()
		if len(gq) != len(gm) {
			return maxGaps, fail("gaps", "getGapAckBlocks = %v, model %v", gq, gm)
		}
		for i := range gq {
			if gq[i].start != gm[i][0] || gq[i].end != gm[i][1] {
				return maxGaps, fail("gaps", "getGapAckBlocks = %v, model %v", gq, gm)
			}
		}
		if len(gm) > maxGaps {
			maxGaps = len(gm)
		}
		// spot-check hasChunk on a few TSNs
		for i := 0; i < 3; i++ {
			t := m.cum + uint32(r.Intn(int(win)+70)) //nolint:gosec
			want := m.set[t]
			if got := q.hasChunk(t); got != want {
				return maxGaps, fail("hasChunk", "hasChunk(%d) = %v, model %v", t, got, want)
			}
		}
	}

	return maxGaps, true
}

func vfRunRPQBatch(_ *testing.T, spec *vfSpec, res *vfRes) {
	r := vfNewRand(spec.Seed)
	n := int(spec.x("seqs", 200))
	nops := int(spec.x("ops", 200))
	bufs := []uint32{1024, 250000, 500000, 1000000, 1048576, 1500000, 2000000, 3000000, 4194304, 5000000, 8000000, 16 << 20, 64 << 20, 1 << 30, 4294967295}
	for i := 0; i < n; i++ {
		var win uint32
		if r.Intn(3) == 0 {
			win = getMaxTSNOffset(bufs[r.Intn(len(bufs))])
		} else {
			win = getMaxTSNOffset(uint32(250000 + r.Intn(5000000))) //nolint:gosec
		}
		var base uint32
		switch r.Intn(6) {
		case 0:
			base = r.Uint32()
		case 1:
			base = uint32(r.Intn(3)) //nolint:gosec
		case 2:
			base = 1<<31 - win + uint32(r.Intn(int(2*win))) //nolint:gosec
		default:
			base = ^uint32(0) - uint32(r.Intn(int(win)+64)) //nolint:gosec
		}
		if v, ok := spec.X["base"]; ok {
			base = uint32(v) //nolint:gosec
		}
		mg, ok := vfRPQSequence(res, r, win, base, nops)
		res.count("c05_diff_sequences", 1)
		res.count("c05_diff_ops", int64(nops))
		if mg >= 2 {
			gb := "2-3"
			if mg >= 4 {
				gb = "4+"
			}
			res.addSig(fmt.Sprintf("rpq|words%d|%s|gaps%s", (win+63)/64, vfBaseClass(base, win), gb))
		}
		if !ok {
			break
		}
	}
	res.res.Evals = int64(n)
	res.res.Nontrivial = true
	res.res.Sample = map[string]any{"kind": "rpq-diff", "sequences": n, "ops_each": nops, "windows": "getMaxTSNOffset(250 kB..8 MB) => 32..625 words", "bases": "random | 0..2 | 2^31±w | 2^32-k (k<=w)"}
}

// ---- (b) sims

func vfGenSackSpec(idx int, seed uint64) vfSpec {
	r := vfNewRand(vfHash(seed, uint64(idx), 0xC05))
	sp := vfGenTransferSpec("C05", idx, seed^0x55, 0, 300)
	sp.ID = fmt.Sprintf("C05-sack-%d", idx)
	sp.Kind = "sack-sim"
	l := vfLinkCfg{DelayUs: int64(r.Pick(5000, 10000, 20000))}
	switch r.Intn(5) {
	case 0:
		l.JitterUs = l.DelayUs * int64(r.Pick(2, 6, 20))
		l.DupPm = r.Pick(0, 100, 300)
	case 1:
		l.LossPm = r.Pick(50, 150, 300)
		l.DupPm = r.Pick(0, 100)
	case 2:
		l.BurstPm, l.BurstLen = 30, 2+r.Intn(10)
		l.JitterUs = l.DelayUs
	case 3:
		l.DataLossPm = r.Pick(100, 300)
		l.JitterUs = l.DelayUs * 3
	default:
		l.LossPm, l.DupPm, l.JitterUs = 100, 100, l.DelayUs*4
	}
	sp.Link = l
	sp.Link.Lockstep = idx%3 == 0
	if sp.Link.Lockstep {
		sp.Yield = 0
	}
	// some partially reliable streams so that FORWARD-TSN moves the cumulative point
	for i := range sp.Streams {
		if r.Intn(3) == 0 {
			sp.Streams[i].RelType = ReliabilityTypeRexmit
			sp.Streams[i].RelVal = uint32(r.Intn(2)) //nolint:gosec
			sp.Streams[i].Unordered = r.Intn(2) == 0
		}
	}

	return sp
}

// vfCheckSackComplete: in lock-step runs every packet is processed before the
// next one is delivered, so a SACK written by E must report every TSN
// delivered to E before the SACK's own gather - provided E accepted them all
// (credit never 0, <= 16 streams, inside the tracking window).
func vfCheckSackComplete(s *vfSim, res *vfRes) {
	if !s.spec.Link.Lockstep {
		return
	}
	evs := s.net.events()
	for side := 0; side < 2; side++ {
		nStreams := 0
		for _, sc := range s.spec.Streams {
			if sc.Dir == 1-side {
				nStreams++
			}
		}
		if nStreams > 12 {
			continue
		}
		got := map[uint32]bool{}
		var fwd uint32
		haveFwd := false
		creditOK := true
		// a TSN beyond the receiver's tracking window is dropped, not accepted
		win := uint32(2048)
		if a := s.getAssoc(side); a != nil {
			win = a.payloadQueue.maxTSNOffset
		}
		for _, e := range evs {
			if e.Pkt == nil {
				e.Pkt = vfDecode(e.Raw)
			}
			p := e.Pkt
			switch {
			case e.Kind == vfWrDeliver && e.Side == side:
				if e.Snap != nil && (e.Snap.Credit < 20000 || !isDataReceiveState(e.Snap.State)) {
					creditOK = false
				}
				for i := range p.Chunks {
					c := &p.Chunks[i]
					if c.isData() && creditOK && e.Snap != nil && sna32LTE(c.TSN, e.Snap.PeerLastTSN+win) {
						got[c.TSN] = true
					}
					if c.Type == vfCtForwardTSN || c.Type == vfCtIForwardTSN {
						if !haveFwd || sna32GT(c.NewCum, fwd) {
							fwd, haveFwd = c.NewCum, true
						}
					}
				}
			case e.Kind == vfWrWrite && e.Side == side && creditOK:
				for i := range p.Chunks {
					c := &p.Chunks[i]
					if c.Type != vfCtSack {
						continue
					}
					res.count("c05_complete_checked", 1)
					rep := map[uint32]bool{}
					for _, g := range c.Gaps {
						for o := uint32(g[0]); o <= uint32(g[1]); o++ {
							rep[c.CumTSN+o] = true
						}
					}
					for t := range got {
						if sna32LTE(t, c.CumTSN) || rep[t] {
							continue
						}
						if haveFwd && sna32LTE(t, fwd) {
							continue
						}
						res.violate("C05", "sack/incomplete", "side %d: SACK (cum %d, gaps %v) written at %v does not report TSN %d which had been delivered and processed before", side, c.CumTSN, c.Gaps, e.T, t)

						return
					}
				}
			}
		}
	}
}

func init() { //nolint:gochecknoinits
	vfRegister(&vfProperty{
		id: "C05",
		list: func(tier string, seed uint64, race bool) []vfSpec {
			var out []vfSpec
			nb := vfTierN(tier, 100, 2000)
			ns := vfTierN(tier, 150, 2500)
			if race {
				nb, ns = vfTierN(tier, 4, 40), vfTierN(tier, 24, 150)
			}
			for i := 0; i < nb; i++ {
				out = append(out, vfSpec{
					Prop: "C05", Kind: "rpq-diff", ID: fmt.Sprintf("C05-rpq-%d", i), Seed: vfHash(seed, uint64(i), 0xd1ff),
					X: map[string]int64{"seqs": 200, "ops": int64(vfTierN(tier, 200, 500))},
				})
			}
			for i := 0; i < ns; i++ {
				out = append(out, vfGenSackSpec(i, seed))
			}

			return out
		},
		run: func(t *testing.T, spec *vfSpec, res *vfRes) {
			if spec.Kind == "rpq-diff" {
				vfRunRPQBatch(t, spec, res)

				return
			}
			o := vfXferOpts{mon: vfMonDefault(spec), hsProp: "C04"}
			o.afterMonitors = func(s *vfSim, _ *vfWork, _ *vfMonOut) { vfCheckSackComplete(s, res) }
			out := vfRunTransfer(t, spec, res, o)
			vfNoteWrap(spec, res, out.mon)
			res.res.Nontrivial = res.has("multi-gap") || (res.has("gap-blocks") && res.has("dup-delivered"))
			ls := "free"
			if spec.Link.Lockstep {
				ls = "lockstep"
			}
			res.res.Sig = "sim|" + ls + "|" + vfXferSig(spec, res)
			res.res.Sample = map[string]any{"kind": "sack-sim", "link": spec.Link, "sacks_checked": res.get("c05_sacks_checked"), "completeness_checked": res.get("c05_complete_checked"), "mechanisms": res.mechs()}
		},
	})
}
