//go:build verif

package sctp

// Independent SCTP wire decoder written from RFC 4960/9260, 3758, 6525, 8260
// and draft-ietf-tsvwg-sctp-zero-checksum. It shares no code with packet.go or
// chunk_*.go so that a codec defect cannot hide from its own oracle.

import (
	"encoding/binary"
	"fmt"
	"hash/crc32"
)

const (
	vfCtData             = 0
	vfCtInit             = 1
	vfCtInitAck          = 2
	vfCtSack             = 3
	vfCtHeartbeat        = 4
	vfCtHeartbeatAck     = 5
	vfCtAbort            = 6
	vfCtShutdown         = 7
	vfCtShutdownAck      = 8
	vfCtError            = 9
	vfCtCookieEcho       = 10
	vfCtCookieAck        = 11
	vfCtShutdownComplete = 14
	vfCtIData            = 64
	vfCtReconfig         = 130
	vfCtForwardTSN       = 192
	vfCtIForwardTSN      = 194
)

func vfKindName(t byte) string {
	switch t {
	case vfCtData:
		return "DATA"
	case vfCtInit:
		return "INIT"
	case vfCtInitAck:
		return "INIT-ACK"
	case vfCtSack:
		return "SACK"
	case vfCtHeartbeat:
		return "HEARTBEAT"
	case vfCtHeartbeatAck:
		return "HEARTBEAT-ACK"
	case vfCtAbort:
		return "ABORT"
	case vfCtShutdown:
		return "SHUTDOWN"
	case vfCtShutdownAck:
		return "SHUTDOWN-ACK"
	case vfCtError:
		return "ERROR"
	case vfCtCookieEcho:
		return "COOKIE-ECHO"
	case vfCtCookieAck:
		return "COOKIE-ACK"
	case vfCtShutdownComplete:
		return "SHUTDOWN-COMPLETE"
	case vfCtIData:
		return "I-DATA"
	case vfCtReconfig:
		return "RECONFIG"
	case vfCtForwardTSN:
		return "FORWARD-TSN"
	case vfCtIForwardTSN:
		return "I-FORWARD-TSN"
	}

	return fmt.Sprintf("T%d", t)
}

func vfFirstChunkKind(raw []byte) string {
	if len(raw) < 16 {
		return "short"
	}

	return vfKindName(raw[12])
}

type vfParam struct {
	Type uint16
	Len  int
	Val  []byte
}

type vfCause struct {
	Code uint16
	Len  int
	Val  []byte
}

type vfFwd struct {
	SID       uint16
	Seq       uint32 // SSN or MID
	Unordered bool
}

type vfChunk struct {
	Type  byte
	Flags byte
	Len   int // length field
	Off   int // offset of the chunk in the packet
	Val   []byte

	// DATA / I-DATA
	TSN        uint32
	SID        uint16
	SSN        uint16
	PPI        uint32
	MID        uint32
	FSN        uint32
	U, B, E, I bool
	Data       []byte

	// SACK
	CumTSN uint32
	ARwnd  uint32
	Gaps   [][2]uint16
	Dups   []uint32

	// FORWARD-TSN / I-FORWARD-TSN
	NewCum uint32
	Fwd    []vfFwd

	// INIT / INIT-ACK
	InitTag uint32
	OS, IS  uint16
	InitTSN uint32

	Params []vfParam
	Causes []vfCause
	Cookie []byte
}

func (c *vfChunk) kind() string { return vfKindName(c.Type) }

func (c *vfChunk) isData() bool { return c.Type == vfCtData || c.Type == vfCtIData }

type vfPkt struct {
	Src, Dst  uint16
	VTag      uint32
	Csum      uint32
	CsumZero  bool
	CsumOK    bool // field equals CRC32c of the packet
	Chunks    []vfChunk
	Malformed []string // framing / well-formedness findings (lengths, padding, counts)
	Semantic  []string // field values that a correct sender never produces (reversed gap, zero tag, ...)
	Fatal     bool     // framing so broken that chunk walk stopped
}

func (p *vfPkt) first() *vfChunk {
	if len(p.Chunks) == 0 {
		return nil
	}

	return &p.Chunks[0]
}

func (p *vfPkt) has(t byte) bool {
	for i := range p.Chunks {
		if p.Chunks[i].Type == t {
			return true
		}
	}

	return false
}

var vfCastagnoli = crc32.MakeTable(crc32.Castagnoli) //nolint:gochecknoglobals

func vfCRC32c(raw []byte) uint32 {
	var zero [4]byte
	s := crc32.Update(0, vfCastagnoli, raw[:8])
	s = crc32.Update(s, vfCastagnoli, zero[:])
	if len(raw) > 12 {
		s = crc32.Update(s, vfCastagnoli, raw[12:])
	}

	return s
}

func (p *vfPkt) bad(format string, args ...any) {
	p.Malformed = append(p.Malformed, fmt.Sprintf(format, args...))
}

func (p *vfPkt) sem(format string, args ...any) {
	p.Semantic = append(p.Semantic, fmt.Sprintf(format, args...))
}

// vfDecode decodes raw; it never panics and reports framing problems in
// Malformed. Semantic (per chunk type) problems are reported as well.
func vfDecode(raw []byte) *vfPkt {
	p := &vfPkt{}
	if len(raw) < 12 {
		p.bad("packet shorter than common header: %d", len(raw))
		p.Fatal = true

		return p
	}
	p.Src = binary.BigEndian.Uint16(raw[0:])
	p.Dst = binary.BigEndian.Uint16(raw[2:])
	p.VTag = binary.BigEndian.Uint32(raw[4:])
	p.Csum = binary.LittleEndian.Uint32(raw[8:])
	p.CsumZero = p.Csum == 0
	p.CsumOK = p.Csum == vfCRC32c(raw)
	if len(raw)%4 != 0 {
		p.bad("packet length %d not a multiple of 4", len(raw))
	}
	if p.Src == 0 || p.Dst == 0 {
		p.sem("zero port")
	}
	off := 12
	for off < len(raw) {
		if len(raw)-off < 4 {
			p.bad("trailing %d bytes, less than a chunk header", len(raw)-off)
			p.Fatal = true

			break
		}
		c := vfChunk{Type: raw[off], Flags: raw[off+1], Len: int(binary.BigEndian.Uint16(raw[off+2:])), Off: off}
		if c.Len < 4 {
			p.bad("chunk %s at %d: length field %d < 4", c.kind(), off, c.Len)
			p.Fatal = true

			break
		}
		if off+c.Len > len(raw) {
			p.bad("chunk %s at %d: length %d runs past end of packet (%d)", c.kind(), off, c.Len, len(raw))
			p.Fatal = true

			break
		}
		c.Val = raw[off+4 : off+c.Len]
		padded := (c.Len + 3) &^ 3
		if off+padded > len(raw) {
			p.bad("chunk %s at %d: padding missing (need %d bytes, packet has %d)", c.kind(), off, padded, len(raw)-off)
			padded = len(raw) - off
		}
		for i := off + c.Len; i < off+padded; i++ {
			if raw[i] != 0 {
				p.bad("chunk %s at %d: non-zero padding byte at %d", c.kind(), off, i)

				break
			}
		}
		p.decodeChunk(&c)
		p.Chunks = append(p.Chunks, c)
		off += padded
	}
	if len(p.Chunks) == 0 && !p.Fatal {
		p.sem("packet without chunks")
	}
	for i := range p.Chunks {
		t := p.Chunks[i].Type
		if (t == vfCtInit || t == vfCtInitAck || t == vfCtShutdownComplete) && len(p.Chunks) != 1 {
			p.sem("%s bundled with other chunks", vfKindName(t))
		}
	}
	if p.has(vfCtInit) && p.VTag != 0 {
		p.sem("INIT with non-zero verification tag")
	}

	return p
}

func vfParseParams(p *vfPkt, what string, b []byte) []vfParam {
	var out []vfParam
	off := 0
	for off < len(b) {
		if len(b)-off < 4 {
			p.bad("%s: %d trailing bytes in parameter list", what, len(b)-off)

			break
		}
		typ := binary.BigEndian.Uint16(b[off:])
		l := int(binary.BigEndian.Uint16(b[off+2:]))
		if l < 4 || off+l > len(b) {
			p.bad("%s: parameter type %d has bad length %d (remaining %d)", what, typ, l, len(b)-off)

			break
		}
		out = append(out, vfParam{Type: typ, Len: l, Val: b[off+4 : off+l]})
		padded := (l + 3) &^ 3
		if off+padded > len(b) {
			// the last parameter's padding may be omitted only if the chunk length says so; RFC says
			// the chunk length includes padding of all but the last parameter.
			padded = len(b) - off
		}
		for i := off + l; i < off+padded; i++ {
			if b[i] != 0 {
				p.bad("%s: parameter type %d has non-zero padding", what, typ)

				break
			}
		}
		off += padded
	}

	return out
}

func vfParseCauses(p *vfPkt, what string, b []byte) []vfCause {
	var out []vfCause
	off := 0
	for off < len(b) {
		if len(b)-off < 4 {
			p.bad("%s: %d trailing bytes in cause list", what, len(b)-off)

			break
		}
		code := binary.BigEndian.Uint16(b[off:])
		l := int(binary.BigEndian.Uint16(b[off+2:]))
		if l < 4 || off+l > len(b) {
			p.bad("%s: cause %d has bad length %d (remaining %d)", what, code, l, len(b)-off)

			break
		}
		out = append(out, vfCause{Code: code, Len: l, Val: b[off+4 : off+l]})
		off += (l + 3) &^ 3
	}

	return out
}

//nolint:cyclop,gocyclo
func (p *vfPkt) decodeChunk(c *vfChunk) {
	v := c.Val
	k := c.kind()
	switch c.Type {
	case vfCtData:
		if len(v) < 12 {
			p.bad("DATA: value %d < 12", len(v))

			return
		}
		c.E, c.B, c.U, c.I = c.Flags&1 != 0, c.Flags&2 != 0, c.Flags&4 != 0, c.Flags&8 != 0
		c.TSN = binary.BigEndian.Uint32(v)
		c.SID = binary.BigEndian.Uint16(v[4:])
		c.SSN = binary.BigEndian.Uint16(v[6:])
		c.PPI = binary.BigEndian.Uint32(v[8:])
		c.Data = v[12:]
		if len(c.Data) == 0 {
			p.sem("DATA: no user data (tsn %d)", c.TSN)
		}
		if c.Flags&0xf0 != 0 {
			p.sem("DATA: reserved flag bits set %02x", c.Flags)
		}
	case vfCtIData:
		if len(v) < 16 {
			p.bad("I-DATA: value %d < 16", len(v))

			return
		}
		c.E, c.B, c.U, c.I = c.Flags&1 != 0, c.Flags&2 != 0, c.Flags&4 != 0, c.Flags&8 != 0
		c.TSN = binary.BigEndian.Uint32(v)
		c.SID = binary.BigEndian.Uint16(v[4:])
		if binary.BigEndian.Uint16(v[6:]) != 0 {
			p.sem("I-DATA: reserved field non-zero")
		}
		c.MID = binary.BigEndian.Uint32(v[8:])
		if c.B {
			c.PPI = binary.BigEndian.Uint32(v[12:])
		} else {
			c.FSN = binary.BigEndian.Uint32(v[12:])
		}
		c.Data = v[16:]
		if len(c.Data) == 0 {
			p.sem("I-DATA: no user data (tsn %d)", c.TSN)
		}
	case vfCtInit, vfCtInitAck:
		if len(v) < 16 {
			p.bad("%s: value %d < 16", k, len(v))

			return
		}
		c.InitTag = binary.BigEndian.Uint32(v)
		c.ARwnd = binary.BigEndian.Uint32(v[4:])
		c.OS = binary.BigEndian.Uint16(v[8:])
		c.IS = binary.BigEndian.Uint16(v[10:])
		c.InitTSN = binary.BigEndian.Uint32(v[12:])
		c.Params = vfParseParams(p, k, v[16:])
		if c.InitTag == 0 {
			p.sem("%s: initiate tag 0", k)
		}
		if c.OS == 0 || c.IS == 0 {
			p.sem("%s: zero streams", k)
		}
		if c.Type == vfCtInitAck {
			found := false
			for _, pr := range c.Params {
				if pr.Type == 7 {
					found = true
				}
			}
			if !found {
				p.bad("INIT-ACK without state cookie")
			}
		}
		if c.Flags != 0 {
			p.sem("%s: flags %02x", k, c.Flags)
		}
	case vfCtSack:
		if len(v) < 12 {
			p.bad("SACK: value %d < 12", len(v))

			return
		}
		c.CumTSN = binary.BigEndian.Uint32(v)
		c.ARwnd = binary.BigEndian.Uint32(v[4:])
		ng := int(binary.BigEndian.Uint16(v[8:]))
		nd := int(binary.BigEndian.Uint16(v[10:]))
		if len(v) != 12+4*ng+4*nd {
			p.bad("SACK: length %d does not match %d gap blocks and %d duplicates", len(v), ng, nd)

			return
		}
		for i := 0; i < ng; i++ {
			s := binary.BigEndian.Uint16(v[12+4*i:])
			e := binary.BigEndian.Uint16(v[14+4*i:])
			c.Gaps = append(c.Gaps, [2]uint16{s, e})
		}
		for i := 0; i < nd; i++ {
			c.Dups = append(c.Dups, binary.BigEndian.Uint32(v[12+4*ng+4*i:]))
		}
		prevEnd := uint16(0)
		for i, g := range c.Gaps {
			if g[0] < 2 && i == 0 {
				p.sem("SACK: first gap block starts at offset %d (<2)", g[0])
			}
			if g[0] > g[1] {
				p.sem("SACK: gap block %d reversed %d-%d", i, g[0], g[1])
			}
			if i > 0 && g[0] <= prevEnd+1 {
				p.sem("SACK: gap block %d (%d-%d) not strictly after previous end %d with a hole", i, g[0], g[1], prevEnd)
			}
			prevEnd = g[1]
		}
	case vfCtHeartbeat, vfCtHeartbeatAck:
		c.Params = vfParseParams(p, k, v)
		if len(c.Params) != 1 || c.Params[0].Type != 1 {
			p.bad("%s: expected exactly one heartbeat-info parameter, got %d", k, len(c.Params))
		}
	case vfCtAbort, vfCtError:
		c.Causes = vfParseCauses(p, k, v)
		if c.Type == vfCtError && len(c.Causes) == 0 {
			p.sem("ERROR without causes")
		}
	case vfCtShutdown:
		if len(v) != 4 {
			p.bad("SHUTDOWN: value %d != 4", len(v))

			return
		}
		c.CumTSN = binary.BigEndian.Uint32(v)
	case vfCtShutdownAck, vfCtCookieAck, vfCtShutdownComplete:
		if len(v) != 0 {
			p.bad("%s: value %d != 0", k, len(v))
		}
	case vfCtCookieEcho:
		c.Cookie = v
		if len(v) == 0 {
			p.sem("COOKIE-ECHO: empty cookie")
		}
	case vfCtReconfig:
		c.Params = vfParseParams(p, k, v)
		if len(c.Params) < 1 || len(c.Params) > 2 {
			p.bad("RECONFIG: %d parameters", len(c.Params))
		}
		for _, pr := range c.Params {
			switch pr.Type {
			case 13:
				if len(pr.Val) < 12 || (len(pr.Val)-12)%2 != 0 {
					p.bad("RECONFIG: outgoing reset request value %d", len(pr.Val))
				}
			case 16:
				if len(pr.Val) != 8 && len(pr.Val) != 16 {
					p.bad("RECONFIG: response value %d", len(pr.Val))
				}
			}
		}
	case vfCtForwardTSN:
		if len(v) < 4 || (len(v)-4)%4 != 0 {
			p.bad("FORWARD-TSN: value %d", len(v))

			return
		}
		c.NewCum = binary.BigEndian.Uint32(v)
		for o := 4; o < len(v); o += 4 {
			c.Fwd = append(c.Fwd, vfFwd{SID: binary.BigEndian.Uint16(v[o:]), Seq: uint32(binary.BigEndian.Uint16(v[o+2:]))})
		}
	case vfCtIForwardTSN:
		if len(v) < 4 || (len(v)-4)%8 != 0 {
			p.bad("I-FORWARD-TSN: value %d", len(v))

			return
		}
		c.NewCum = binary.BigEndian.Uint32(v)
		for o := 4; o < len(v); o += 8 {
			fl := binary.BigEndian.Uint16(v[o+2:])
			if fl&^1 != 0 {
				p.sem("I-FORWARD-TSN: reserved bits set")
			}
			c.Fwd = append(c.Fwd, vfFwd{SID: binary.BigEndian.Uint16(v[o:]), Unordered: fl&1 != 0, Seq: binary.BigEndian.Uint32(v[o+4:])})
		}
	default:
	}
}

// ---- helpers to read decoded reconfig params

type vfResetReq struct {
	ReqSeq, RespSeq, LastTSN uint32
	SIDs                     []uint16
}

func vfParseResetReq(pr vfParam) (vfResetReq, bool) {
	if pr.Type != 13 || len(pr.Val) < 12 {
		return vfResetReq{}, false
	}
	r := vfResetReq{
		ReqSeq:  binary.BigEndian.Uint32(pr.Val),
		RespSeq: binary.BigEndian.Uint32(pr.Val[4:]),
		LastTSN: binary.BigEndian.Uint32(pr.Val[8:]),
	}
	for o := 12; o+2 <= len(pr.Val); o += 2 {
		r.SIDs = append(r.SIDs, binary.BigEndian.Uint16(pr.Val[o:]))
	}

	return r, true
}

func vfParseResetResp(pr vfParam) (seq uint32, result uint32, ok bool) {
	if pr.Type != 16 || len(pr.Val) < 8 {
		return 0, 0, false
	}

	return binary.BigEndian.Uint32(pr.Val), binary.BigEndian.Uint32(pr.Val[4:]), true
}

// vfInitExt extracts what an INIT/INIT-ACK advertises.
type vfInitExt struct {
	FwdTSN, IData, IFwdTSN, Reconfig bool
	ZeroCsum                         bool
	ZeroCsumEDMID                    uint32
	NZeroCsum                        int
}

func vfInitExtensions(c *vfChunk) vfInitExt {
	var e vfInitExt
	for _, pr := range c.Params {
		switch pr.Type {
		case 0x8008:
			for _, t := range pr.Val {
				switch t {
				case vfCtForwardTSN:
					e.FwdTSN = true
				case vfCtIData:
					e.IData = true
				case vfCtIForwardTSN:
					e.IFwdTSN = true
				case vfCtReconfig:
					e.Reconfig = true
				}
			}
		case 0xC000:
			e.FwdTSN = true
		case 0x8001:
			e.NZeroCsum++
			if len(pr.Val) == 4 {
				e.ZeroCsumEDMID = binary.BigEndian.Uint32(pr.Val)
				e.ZeroCsum = e.ZeroCsumEDMID == 1
			}
		}
	}

	return e
}

// ---- a tiny encoder for harness-made (puppet / hostile) packets

type vfBuilder struct{ b []byte }

func vfNewPacket(src, dst uint16, vtag uint32) *vfBuilder {
	b := make([]byte, 12)
	binary.BigEndian.PutUint16(b[0:], src)
	binary.BigEndian.PutUint16(b[2:], dst)
	binary.BigEndian.PutUint32(b[4:], vtag)

	return &vfBuilder{b: b}
}

func (w *vfBuilder) chunk(typ, flags byte, val []byte) *vfBuilder {
	h := []byte{typ, flags, 0, 0}
	binary.BigEndian.PutUint16(h[2:], uint16(4+len(val))) //nolint:gosec
	w.b = append(w.b, h...)
	w.b = append(w.b, val...)
	for len(w.b)%4 != 0 {
		w.b = append(w.b, 0)
	}

	return w
}

func (w *vfBuilder) bytes(withCRC bool) []byte {
	out := make([]byte, len(w.b))
	copy(out, w.b)
	if withCRC {
		binary.LittleEndian.PutUint32(out[8:], vfCRC32c(out))
	}

	return out
}

func vfU32(vs ...uint32) []byte {
	b := make([]byte, 4*len(vs))
	for i, v := range vs {
		binary.BigEndian.PutUint32(b[4*i:], v)
	}

	return b
}

func vfDataVal(tsn uint32, sid, ssn uint16, ppi uint32, data []byte) []byte {
	b := make([]byte, 12+len(data))
	binary.BigEndian.PutUint32(b, tsn)
	binary.BigEndian.PutUint16(b[4:], sid)
	binary.BigEndian.PutUint16(b[6:], ssn)
	binary.BigEndian.PutUint32(b[8:], ppi)
	copy(b[12:], data)

	return b
}

func vfIDataVal(tsn uint32, sid uint16, mid, ppiOrFsn uint32, data []byte) []byte {
	b := make([]byte, 16+len(data))
	binary.BigEndian.PutUint32(b, tsn)
	binary.BigEndian.PutUint16(b[4:], sid)
	binary.BigEndian.PutUint32(b[8:], mid)
	binary.BigEndian.PutUint32(b[12:], ppiOrFsn)
	copy(b[16:], data)

	return b
}

func vfSackVal(cum, arwnd uint32, gaps [][2]uint16, dups []uint32) []byte {
	b := make([]byte, 12+4*len(gaps)+4*len(dups))
	binary.BigEndian.PutUint32(b, cum)
	binary.BigEndian.PutUint32(b[4:], arwnd)
	binary.BigEndian.PutUint16(b[8:], uint16(len(gaps))) //nolint:gosec
	binary.BigEndian.PutUint16(b[10:], uint16(len(dups))) //nolint:gosec
	for i, g := range gaps {
		binary.BigEndian.PutUint16(b[12+4*i:], g[0])
		binary.BigEndian.PutUint16(b[14+4*i:], g[1])
	}
	for i, d := range dups {
		binary.BigEndian.PutUint32(b[12+4*len(gaps)+4*i:], d)
	}

	return b
}
