//go:build verif

package sctp

// Real-time (non-bubble) scenarios. A goroutine parked on a sync.Mutex is not durably blocked for synctest, so
// schedules in which one caller waits for a mutex while its holder waits for time to pass cannot run in virtual
// time. The few scenarios that need them run here over an in-memory datagram pipe in real time; their verdicts
// rest on logical evidence read at a quiescent point (nothing pending or in flight), never on elapsed time -
// when the quiescent point is not reached in the budget the run is inconclusive.

import (
	"errors"
	"fmt"
	"io"
	"net"
	"os"
	"sync"
	"testing"
	"time"
)

type vfRTConn struct {
	in     chan []byte
	peer   *vfRTConn
	closed chan struct{}
	once   sync.Once
	mu     sync.Mutex
	rdl    time.Time
	wake   chan struct{}
}

func vfRTPipe() (*vfRTConn, *vfRTConn) {
	a := &vfRTConn{in: make(chan []byte, 4096), closed: make(chan struct{}), wake: make(chan struct{}, 1)}
	b := &vfRTConn{in: make(chan []byte, 4096), closed: make(chan struct{}), wake: make(chan struct{}, 1)}
	a.peer, b.peer = b, a

	return a, b
}

func (c *vfRTConn) Read(b []byte) (int, error) {
	for {
		c.mu.Lock()
		dl := c.rdl
		c.mu.Unlock()
		var tc <-chan time.Time
		if !dl.IsZero() {
			d := time.Until(dl)
			if d <= 0 {
				return 0, os.ErrDeadlineExceeded
			}
			tm := time.NewTimer(d)
			defer tm.Stop()
			tc = tm.C
		}
		select {
		case p := <-c.in:
			return copy(b, p), nil
		case <-c.closed:
			return 0, io.EOF
		case <-tc:
			return 0, os.ErrDeadlineExceeded
		case <-c.wake:
		}
	}
}

func (c *vfRTConn) Write(b []byte) (int, error) {
	select {
	case <-c.closed:
		return 0, io.ErrClosedPipe
	default:
	}
	cp := append([]byte(nil), b...)
	select {
	case c.peer.in <- cp:
	default: // queue full: datagram lost
	}

	return len(b), nil
}

func (c *vfRTConn) Close() error {
	c.once.Do(func() { close(c.closed) })

	return nil
}
func (c *vfRTConn) LocalAddr() net.Addr  { return vfAddr{} }
func (c *vfRTConn) RemoteAddr() net.Addr { return vfAddr{} }
func (c *vfRTConn) SetDeadline(t time.Time) error {
	return c.SetReadDeadline(t)
}

func (c *vfRTConn) SetReadDeadline(t time.Time) error {
	c.mu.Lock()
	c.rdl = t
	c.mu.Unlock()
	select {
	case c.wake <- struct{}{}:
	default:
	}

	return nil
}
func (c *vfRTConn) SetWriteDeadline(time.Time) error { return nil }

// vfRunRTBlockDeadline: blocking-write mode, two writers on one stream. The first is parked at the gate (holding
// the stream's write mutex) with a deadline, the second queues behind it. The first times out and rolls its
// sequence number back; everything that was accepted must still be delivered, in order.
//
//nolint:gocognit,cyclop
func vfRunRTBlockDeadline(_ *testing.T, spec *vfSpec, res *vfRes) {
	il := spec.A.IL
	ca, cb := vfRTPipe()
	sink := &vfLogSink{}
	lf := &vfLogFactory{sink: sink}
	type hs struct {
		a   *Association
		err error
	}
	chA, chB := make(chan hs, 1), make(chan hs, 1)
	go func() {
		a, err := ClientWithOptions(WithNetConn(ca), WithLoggerFactory(lf), WithBlockWrite(true), WithEnableInterleaving(il), WithName("rtA"))
		chA <- hs{a, err}
	}()
	go func() {
		a, err := ServerWithOptions(WithNetConn(cb), WithLoggerFactory(lf), WithMaxReceiveBufferSize(4096), WithEnableInterleaving(il), WithName("rtB"))
		chB <- hs{a, err}
	}()
	var A, B *Association
	for i := 0; i < 2; i++ {
		select {
		case h := <-chA:
			A, chA = h.a, nil
			if h.err != nil {
				res.inconclusive("real-time handshake failed")
			}
		case h := <-chB:
			B, chB = h.a, nil
			if h.err != nil {
				res.inconclusive("real-time handshake failed")
			}
		case <-time.After(20 * time.Second):
			res.inconclusive("real-time handshake did not finish in 20 s")
			_ = ca.Close()
			_ = cb.Close()

			return
		}
	}
	defer func() {
		if A != nil {
			_ = A.Close()
		}
		if B != nil {
			_ = B.Close()
		}
	}()
	if A == nil || B == nil {
		return
	}
	st, err := A.OpenStream(1, PayloadTypeWebRTCBinary)
	if err != nil {
		res.inconclusive("OpenStream failed")

		return
	}
	key := vfMsgKey(spec.Seed, 0, 1, 0)
	var mu sync.Mutex
	accepted := map[int][]byte{}
	write := func(idx, size int) error {
		msg := vfMakeMsg(key, idx, size)
		_, err := st.WriteSCTP(msg, PayloadTypeWebRTCBinary)
		if err == nil {
			mu.Lock()
			accepted[idx] = msg
			mu.Unlock()
		}

		return err
	}
	// m0 goes in flight, m1 stays pending (the peer advertises 4 kB and does not read): the gate is closed
	_ = write(0, 3000)
	_ = write(1, 3000)
	time.Sleep(100 * time.Millisecond)
	d := time.Duration(spec.x("deadline_ms", 300)) * time.Millisecond
	w1 := make(chan error, 1)
	go func() {
		_ = st.SetWriteDeadline(time.Now().Add(d))
		w1 <- write(2, 700)
	}()
	time.Sleep(d / 3)
	w2 := make(chan error, 1)
	go func() { w2 <- write(3, 900) }()
	var e1 error
	select {
	case e1 = <-w1:
	case <-time.After(20 * time.Second):
		res.inconclusive("the parked write did not return in 20 s")

		return
	}
	_ = st.SetWriteDeadline(time.Time{})
	res.count("c18_rt_deadline_writes", 1)
	if e1 == nil {
		res.inconclusive("the write with a deadline was accepted (gate opened early)")

		return
	}
	// the reader starts; writer 2 gets through the gate, then one more ordinary write
	type rd struct {
		hash uint64
		n    int
	}
	var reads []rd
	var rmu sync.Mutex
	rdone := make(chan struct{})
	go func() {
		defer close(rdone)
		bst, err := B.AcceptStream()
		if err != nil {
			return
		}
		buf := make([]byte, 65536)
		for {
			n, ppi, err := bst.ReadSCTP(buf)
			if err != nil {
				return
			}
			rmu.Lock()
			reads = append(reads, rd{vfMsgHash(uint32(ppi), buf[:n]), n})
			rmu.Unlock()
		}
	}()
	select {
	case <-w2:
	case <-time.After(20 * time.Second):
		res.inconclusive("the second writer did not return in 20 s")

		return
	}
	_ = write(4, 500)
	// quiescent point: nothing pending, nothing in flight at the sender
	quiet := false
	for i := 0; i < 400 && !quiet; i++ {
		time.Sleep(50 * time.Millisecond)
		A.lock.RLock()
		quiet = A.pendingQueue.size() == 0 && A.inflightQueue.size() == 0
		A.lock.RUnlock()
	}
	if !quiet {
		res.inconclusive("the sender did not drain in 20 s of real time")

		return
	}
	time.Sleep(200 * time.Millisecond)
	// logical evidence: everything the sender was told is acknowledged; whatever was accepted must have been read,
	// in order; a complete message waiting behind a missing sequence number is a hole left by the failed write
	mu.Lock()
	var want []uint64
	for idx := 0; idx <= 4; idx++ {
		if m, ok := accepted[idx]; ok {
			want = append(want, vfMsgHash(53, m))
		}
	}
	mu.Unlock()
	rmu.Lock()
	got := append([]rd(nil), reads...)
	rmu.Unlock()
	ok := len(got) == len(want)
	for i := 0; ok && i < len(got); i++ {
		ok = got[i].hash == want[i]
	}
	if !ok {
		hole := ""
		B.lock.RLock()
		for sid, s := range B.streams {
			s.lock.RLock()
			rq := s.reassemblyQueue
			hole += fmt.Sprintf(" [stream %d: nextSSN=%d nextMID=%d held ordered sets=%d/%d bytes=%d]", sid, rq.nextSSN, rq.nextMID, len(rq.ordered), len(rq.orderedMID), rq.getNumBytes())
			s.lock.RUnlock()
		}
		B.lock.RUnlock()
		res.violate("C18", "blockwrite/deadline-disturbs-others", "blocking-write mode, two writers on one stream: after the parked writer hit its deadline (%v) and everything else was acknowledged, the peer read %d of %d accepted messages in order; receiver state:%s", e1, len(got), len(want), hole)
	}
	if errors.Is(e1, os.ErrDeadlineExceeded) || e1 != nil {
		res.seen("deadline-with-queued-writer")
	}
	res.res.Nontrivial = true
	res.res.Sig = fmt.Sprintf("rt-block-deadline|il%v|d%d", il, spec.x("deadline_ms", 300))
	res.res.Sample = map[string]any{"kind": "rt-block-deadline", "interleaving": il, "deadline_ms": spec.x("deadline_ms", 300), "accepted": len(want), "read": len(got)}
}

// vfRunRTStorm: a short real-time API storm for the schedules that cannot run in virtual time: blocking-write mode
// with several writers per stream (they queue on the stream's write mutex), write deadlines, concurrent readers and
// a concurrent Close. Oracles: the race detector (race shards), the watchdog's stack classifier (a real deadlock
// shows goroutines parked on sctp mutexes with nothing running), every call returns once both sides are closed.
//
//nolint:gocognit,cyclop
func vfRunRTStorm(_ *testing.T, spec *vfSpec, res *vfRes) {
	il := spec.A.IL
	ca, cb := vfRTPipe()
	lf := &vfLogFactory{sink: &vfLogSink{}}
	type hs struct {
		a   *Association
		err error
	}
	chA, chB := make(chan hs, 1), make(chan hs, 1)
	go func() {
		a, err := ClientWithOptions(WithNetConn(ca), WithLoggerFactory(lf), WithBlockWrite(true), WithEnableInterleaving(il), WithName("rtA"))
		chA <- hs{a, err}
	}()
	go func() {
		a, err := ServerWithOptions(WithNetConn(cb), WithLoggerFactory(lf), WithBlockWrite(true), WithMaxReceiveBufferSize(uint32(spec.x("rbuf", 65536))), WithEnableInterleaving(il), WithName("rtB")) //nolint:gosec
		chB <- hs{a, err}
	}()
	var assoc [2]*Association
	for i := 0; i < 2; i++ {
		select {
		case h := <-chA:
			assoc[0], chA = h.a, nil
		case h := <-chB:
			assoc[1], chB = h.a, nil
		case <-time.After(20 * time.Second):
			res.inconclusive("real-time handshake did not finish in 20 s")
			_ = ca.Close()
			_ = cb.Close()

			return
		}
	}
	if assoc[0] == nil || assoc[1] == nil {
		res.inconclusive("real-time handshake failed")
		_ = ca.Close()
		_ = cb.Close()

		return
	}
	nStreams := 2
	var streams [2][]*Stream
	for side := 0; side < 2; side++ {
		for i := 0; i < nStreams; i++ {
			s, err := assoc[side].OpenStream(uint16(1+i), PayloadTypeWebRTCBinary) //nolint:gosec
			if err != nil {
				res.inconclusive("OpenStream failed")

				return
			}
			streams[side] = append(streams[side], s)
		}
	}
	var wg sync.WaitGroup
	stop := make(chan struct{})
	var calls, failed, delivered int64
	var cmu sync.Mutex
	bump := func(p *int64) {
		cmu.Lock()
		*p++
		cmu.Unlock()
		vfProgress.Add(1)
	}
	for side := 0; side < 2; side++ {
		side := side
		for _, s := range streams[side] {
			s := s
			// three writers per stream: they queue on the stream's write mutex while one waits at the gate
			for wi := 0; wi < 3; wi++ {
				wi := wi
				wg.Add(1)
				go func() {
					defer wg.Done()
					r := vfNewRand(vfHash(spec.Seed, uint64(side), uint64(s.StreamIdentifier()), uint64(wi)))
					for i := 0; i < int(spec.x("ops", 60)); i++ {
						select {
						case <-stop:
							return
						default:
						}
						if r.Intn(3) == 0 {
							_ = s.SetWriteDeadline(time.Now().Add(time.Duration(r.Pick(1, 5, 20)) * time.Millisecond))
						} else if r.Intn(3) == 0 {
							_ = s.SetWriteDeadline(time.Time{})
						}
						_, err := s.WriteSCTP(vfStormMsg(side, wi, s.StreamIdentifier(), uint32(i), 16+r.Intn(3000)), PayloadTypeWebRTCBinary) //nolint:gosec
						bump(&calls)
						if err != nil {
							bump(&failed)
						}
						_ = s.BufferedAmount()
					}
				}()
			}
			wg.Add(1)
			go func() {
				defer wg.Done()
				buf := make([]byte, 8192)
				for {
					n, _, err := s.ReadSCTP(buf)
					if err != nil {
						if errors.Is(err, ErrReadDeadlineExceeded) {
							_ = s.SetReadDeadline(time.Time{})

							continue
						}

						return
					}
					bump(&calls)
					if _, _, _, _, ok := vfStormCheckMsg(buf[:n]); !ok {
						res.violate("C01", "deliver/corrupt", "real-time storm: a %d-byte message was read that no writer produced", n)
					}
					bump(&delivered)
				}
			}()
		}
	}
	time.Sleep(time.Duration(spec.x("run_ms", 1500)) * time.Millisecond)
	// terminal calls from several goroutines while writers are parked and queued
	var tw sync.WaitGroup
	for side := 0; side < 2; side++ {
		a := assoc[side]
		for k := 0; k < 2; k++ {
			tw.Add(1)
			go func() {
				defer tw.Done()
				_ = a.Close()
			}()
		}
	}
	tw.Wait()
	close(stop)
	done := make(chan struct{})
	go func() { wg.Wait(); close(done) }()
	select {
	case <-done:
	case <-time.After(45 * time.Second):
		// real time: not a verdict by itself; the watchdog classifies a true deadlock from the stacks
		res.inconclusive("calls still pending 45 s after both associations were closed (real time)")
		time.Sleep(90 * time.Second)
	}
	cmu.Lock()
	nc, nf, nd := calls, failed, delivered
	cmu.Unlock()
	res.count("c20_rt_storms", 1)
	res.count("c20_api_calls", nc)
	res.res.Evals = nc
	res.res.Nontrivial = nf > 0 && nd > 0
	res.res.Sig = fmt.Sprintf("rt-storm|il%v|rbuf%d|f%v", il, spec.x("rbuf", 0), nf > 0)
	res.res.Sample = map[string]any{"kind": "rt-storm", "calls": nc, "failed_writes": nf, "messages_read": nd, "interleaving": il}
}
