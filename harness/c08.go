//go:build verif

package sctp

// C08 — graceful shutdown delivers everything first and completes on both sides.

import (
	"context"
	"fmt"
	"testing"
	"time"
)

func vfGenShutdownSpecs(tier string, seed uint64, race bool) []vfSpec {
	var out []vfSpec
	type fid struct {
		dir, ord int
		act      string
	}
	var singles []fid
	for dir := 0; dir < 2; dir++ {
		for ord := 1; ord <= 6; ord++ {
			for _, a := range []string{"drop", "dup", "delay"} {
				singles = append(singles, fid{dir, ord, a})
			}
		}
	}
	qs := []int{0, 1, 8, 200}
	modes := []string{"one", "cross-1", "cross0", "cross+1"}
	idx := 0
	mk := func(q int, mode string, faults []fid, extra ...vfFault) {
		r := vfNewRand(vfHash(seed, uint64(idx), 0xC08))
		sp := vfSpec{Prop: "C08", Kind: "shutdown", ID: fmt.Sprintf("C08-sd-%d", idx), Seed: r.Uint64()}
		sp.A, sp.B = vfSampleSides(r, 100)
		sp.A.MTU, sp.B.MTU = uint32(r.Pick(0, 0, 576)), uint32(r.Pick(0, 0, 1500)) //nolint:gosec
		sp.Link = vfLinkCfg{DelayUs: 10000}
		if q > 1 && r.Intn(2) == 0 {
			sp.Link.LossPm = r.Pick(20, 100)
			sp.Link.JitterUs = int64(r.Pick(0, 10000))
			// stochastic faults stop after a while (an association under permanent loss may legitimately
			// need very long: a lost SACK costs one RTO and inflates the RTT estimate); the scripted faults on
			// the packets after the Shutdown call always apply
			sp.Link.HealUs = int64(r.Pick(2, 10, 30)) * 1000000
		}
		desc := ""
		for _, f := range faults {
			ff := vfFault{Dir: f.dir, Kind: "any", Nth: f.ord, Rel: true, Act: f.act}
			switch f.act {
			case "dup":
				ff.DelayUs = int64(r.Pick(1000, 300000))
			case "delay":
				ff.DelayUs = 1500000
			}
			sp.Link.Script = append(sp.Link.Script, ff)
			desc += fmt.Sprintf("%d.%d.%s ", f.dir, f.ord, f.act)
		}
		for _, ff := range extra {
			sp.Link.Script = append(sp.Link.Script, ff)
			desc += fmt.Sprintf("%d.%s%d.%s ", ff.Dir, ff.Kind, ff.Nth, ff.Act)
		}
		sp.X = map[string]int64{"q": int64(q)}
		sp.XS = map[string]string{"mode": mode, "faults": desc}
		sp.A.BlockWrite = r.Intn(4) == 0
		il := sp.A.IL && sp.B.IL
		sp.A.MaxMsg = vfEffMaxMsg(&sp.A, &sp.B, 2, il)
		sp.B.MaxMsg = vfEffMaxMsg(&sp.B, &sp.A, 2, il)
		if q > 0 {
			n1 := q - q/3
			sp.Streams = append(sp.Streams, vfStreamCfg{SID: 1, Dir: 0, NMsgs: n1, SizeMode: []string{"small", "mixed", "boundary"}[r.Intn(3)], Reader: "fast"})
			if q-n1 > 0 {
				sp.Streams = append(sp.Streams, vfStreamCfg{SID: 2, Dir: 0, NMsgs: q - n1, SizeMode: "small", Reader: []string{"fast", "slow"}[r.Intn(2)]})
			}
			if mode != "one" || r.Intn(2) == 0 {
				sp.Streams = append(sp.Streams, vfStreamCfg{SID: 3, Dir: 1, NMsgs: 1 + q/4, SizeMode: "small", Reader: "fast"})
			}
		}
		out = append(out, sp)
		idx++
	}
	pairs := vfTierN(tier, 24, -1)
	triples := vfTierN(tier, 4, 40)
	if race {
		pairs, triples = 1, 0
	}
	for _, q := range qs {
		for _, mode := range modes {
			r := vfNewRand(vfHash(seed, uint64(q), uint64(len(mode)), 0x8c))
			mk(q, mode, nil)
			if race {
				mk(q, mode, []fid{singles[r.Intn(len(singles))]})
			} else {
				for _, f := range singles {
					mk(q, mode, []fid{f})
				}
			}
			if pairs < 0 {
				for i := 0; i < len(singles); i++ {
					for j := i + 1; j < len(singles); j++ {
						if singles[i].dir == singles[j].dir && singles[i].ord == singles[j].ord {
							continue
						}
						mk(q, mode, []fid{singles[i], singles[j]})
					}
				}
			} else {
				for k := 0; k < pairs; k++ {
					a, b := singles[r.Intn(len(singles))], singles[r.Intn(len(singles))]
					if a.dir == b.dir && a.ord == b.ord {
						continue
					}
					mk(q, mode, []fid{a, b})
				}
			}
			for k := 0; k < triples; k++ {
				mk(q, mode, []fid{singles[r.Intn(len(singles))], singles[r.Intn(len(singles))], singles[r.Intn(len(singles))]})
			}
		}
	}
	// a duplicate of the peer's DATA that arrives while the SHUTDOWN is outstanding (SHUTDOWN-SENT), the first
	// SHUTDOWN (or two) lost: the duplicate is answered with SACK + SHUTDOWN and the sequence still completes
	for _, q := range []int{1, 8} {
		for _, mode := range modes {
			for _, late := range []int64{150000, 400000, 900000} {
				for nd := 1; nd <= 2; nd++ {
					var ex []vfFault
					for k := 1; k <= nd; k++ {
						ex = append(ex, vfFault{Dir: 0, Kind: "SHUTDOWN", Nth: k, Act: "drop"})
					}
					for k := 1; k <= 3; k++ {
						ex = append(ex, vfFault{Dir: 1, Kind: "DATA", Nth: k, Act: "dup", DelayUs: late},
							vfFault{Dir: 1, Kind: "I-DATA", Nth: k, Act: "dup", DelayUs: late})
					}
					mk(q, mode, nil, ex...)
					if race {
						break
					}
				}
				if race {
					break
				}
			}
		}
	}
	// state x shutdown-chunk matrix
	states := []uint32{closed, cookieWait, cookieEchoed, established, shutdownPending, shutdownSent, shutdownReceived, shutdownAckSent}
	reps := vfTierN(tier, 1, 6)
	for rep := 0; rep < reps; rep++ {
		for _, st := range states {
			for _, ck := range []string{"shutdown-valid", "shutdown-stale", "shutdown-invalid", "shutdown-ack", "shutdown-complete"} {
				r := vfNewRand(vfHash(seed, uint64(idx), 0xC08))
				sp := vfSpec{Prop: "C08", Kind: "sd-matrix", ID: fmt.Sprintf("C08-matrix-%d", idx), Seed: r.Uint64()}
				sp.A, sp.B = vfSampleSides(r, 0)
				sp.A.MTU, sp.B.MTU, sp.A.RecvBuf, sp.B.RecvBuf = 0, 0, 0, 0
				sp.Link = vfLinkCfg{DelayUs: 10000}
				for i := 0; i < 2; i++ {
					d := i % 2
					if st == shutdownReceived {
						d = 0
					}
					sp.Streams = append(sp.Streams, vfStreamCfg{SID: uint16(i + 1), Dir: d, NMsgs: 400, SizeMode: "mixed", Reader: "fast"}) //nolint:gosec
				}
				sp.A.MaxMsg, sp.B.MaxMsg = 16384, 16384
				sp.X = map[string]int64{"state": int64(st)}
				sp.XS = map[string]string{"chunk": ck, "ctx": "inflight"}
				out = append(out, sp)
				idx++
			}
		}
	}

	return out
}

//nolint:gocognit,cyclop,gocyclo,maintidx
func vfRunShutdown(t *testing.T, spec *vfSpec, res *vfRes) {
	vfRunBubble(t, spec.ID, func(t *testing.T) {
		sim := vfNewSim(t, spec, res)
		if !sim.start() {
			res.violate("C04", "handshake/failed-clean-link", "handshake failed: %v %v", sim.connErr[0], sim.connErr[1])
			sim.teardown()
			sim.finalLeakCheck()

			return
		}
		w := sim.newWork()
		for _, sc := range spec.Streams {
			w.addStream(sc, 0)
		}
		mode := spec.XS["mode"]
		// all writes accepted (not necessarily delivered) before the call
		if !w.waitWriters(10 * time.Minute) {
			res.inconclusive("writers did not return")
		}
		// crossed = both calls are made before either SHUTDOWN can have arrived: skew below the one-way delay
		rtt := time.Duration(spec.Link.DelayUs) * time.Microsecond / 2
		type sdRes struct {
			err  error
			done chan struct{}
			t0   time.Duration
			t1   time.Duration
			seq0 int64 // logical instant of the Shutdown call
		}
		call := func(side int) *sdRes {
			r := &sdRes{done: make(chan struct{})}
			a := sim.getAssoc(side)
			go func() {
				defer close(r.done)
				ctx, cancel := context.WithTimeout(context.Background(), 20*time.Minute)
				defer cancel()
				sim.net.markRel()
				ev := sim.apiCall(side, "shutdown", 0)
				r.t0 = sim.net.now()
				r.seq0 = sim.net.seq.Add(1)
				r.err = a.Shutdown(ctx)
				r.t1 = sim.net.now()
				sim.apiRet(ev, 0, r.err)
			}()

			return r
		}
		// blocking-write mode: a writer that is parked at the gate when Shutdown begins must be released with an error
		type parkedRes struct {
			err    error
			t0, t1 time.Duration
			s0, s1 int64 // logical instants of the call and the return of the second write
			done   chan struct{}
			hash   uint64
		}
		var parked *parkedRes
		if spec.A.BlockWrite && mode != "cross-1" {
			a0 := sim.getAssoc(0)
			if pst, err := a0.OpenStream(77, PayloadTypeWebRTCBinary); err == nil {
				big := vfMakeMsg(vfMsgKey(spec.Seed, 0, 77, 0), 0, int(a0.MaxMessageSize()))
				second := vfMakeMsg(vfMsgKey(spec.Seed, 0, 77, 0), 1, 500)
				parked = &parkedRes{done: make(chan struct{}), hash: vfMsgHash(53, second)}
				go func() {
					defer close(parked.done)
					_, _ = pst.WriteSCTP(big, PayloadTypeWebRTCBinary)
					parked.t0 = sim.net.now()
					parked.s0 = sim.net.seq.Add(1)
					_, parked.err = pst.WriteSCTP(second, PayloadTypeWebRTCBinary)
					parked.s1 = sim.net.seq.Add(1)
					parked.t1 = sim.net.now()
				}()
				time.Sleep(200 * time.Microsecond)
			}
		}
		var ra, rb *sdRes
		switch mode {
		case "one":
			ra = call(0)
		case "cross-1":
			rb = call(1)
			time.Sleep(rtt)
			ra = call(0)
		case "cross0":
			ra = call(0)
			rb = call(1)
		case "cross+1":
			ra = call(0)
			time.Sleep(rtt)
			rb = call(1)
		}
		// writes attempted after shutdown began must be rejected and never be read
		time.Sleep(time.Millisecond)
		lateHashes := map[uint64]bool{}
		if parked != nil && ra != nil {
			if vfWaitCh(parked.done, 25*time.Minute) != nil {
				res.violate("C08", "parked-write/hang", "a blocking write parked at the gate when Shutdown began did not return within 25 min of virtual time")
			} else {
				res.count("c08_parked_writes", 1)
				res.witness("parked write: began %v returned %v err=%v; shutdown call at %v", parked.t0, parked.t1, parked.err, ra.t0)
				if parked.s0 < ra.seq0 && ra.seq0 < parked.s1 {
					res.seen("writer-parked-at-shutdown")
					res.count("c08_parked_at_shutdown", 1)
					if parked.err == nil {
						res.violate("C08", "parked-write/accepted", "a blocking write was parked at the gate when Shutdown was called (write began %v, Shutdown %v) and returned nil at %v: it was accepted after shutdown had begun", parked.t0, ra.t0, parked.t1)
					} else {
						lateHashes[parked.hash] = true
					}
				}
			}
		}
		for side := 0; side < 2; side++ {
			if (side == 0 && ra == nil) || (side == 1 && rb == nil) {
				continue
			}
			for _, run := range w.allRuns() {
				if run.wside != side {
					continue
				}
				run.mu.Lock()
				st := run.wStream
				run.mu.Unlock()
				if st == nil {
					continue
				}
				msg := vfMakeMsg(run.key, 100000+side, 300)
				lateHashes[vfMsgHash(53, msg)] = true
				_, err := st.WriteSCTP(msg, PayloadTypeWebRTCBinary)
				res.count("c08_late_writes", 1)
				if err == nil {
					res.violate("C08", "late-write/accepted", "side %d stream %d: WriteSCTP issued after Shutdown was called returned nil", side, run.cfg.SID)
				}
			}
		}
		// The first side to finish must do so by itself. A side whose final SHUTDOWN-COMPLETE (or whose peer's) was
		// lost cannot be answered any more once the other association is gone: it ends, at the latest, when
		// its transport is closed - that is what the application does next.
		calls := []*sdRes{ra, rb}
		first := -1
		{
			var chA, chB <-chan struct{}
			if ra != nil {
				chA = ra.done
			}
			if rb != nil {
				chB = rb.done
			}
			tm := time.NewTimer(25 * time.Minute)
			select {
			case <-chA:
				first = 0
			case <-chB:
				first = 1
			case <-tm.C:
				res.violate("C08", "shutdown/hang", "no Shutdown call returned within 25 min of virtual time (mode %s)", mode)
			}
			tm.Stop()
		}
		nFault := sim.net.faultsHit()
		time.Sleep(3 * time.Second)
		sim.quiesce()
		if first >= 0 {
			r := calls[first]
			if r.err != nil {
				res.violate("C08", "shutdown/error", "mode %s: side %d Shutdown returned %v on a link that only loses, duplicates and delays packets", mode, first, r.err)
			} else if st := sim.getAssoc(first).getState(); st != closed {
				res.violate("C08", "shutdown/not-closed", "side %d: Shutdown returned nil but the association is in state %d", first, st)
			}
		}
		// now close the transports (what the application does once the initiator is finished)
		closeT := sim.net.now()
		for side := 0; side < 2; side++ {
			_ = sim.net.conns[side].Close()
		}
		time.Sleep(time.Second)
		sim.quiesce()
		for side, r := range calls {
			if r == nil {
				continue
			}
			select {
			case <-r.done:
				if r.err != nil && side != first {
					res.violate("C08", "shutdown/crossed-error", "crossed shutdown (%s): side %d Shutdown returned %v", mode, side, r.err)
				}
			default:
				res.violate("C08", "shutdown/hang-after-transport-close", "side %d: Shutdown still blocked 1 s after its transport was closed", side)
			}
		}
		// the delivery guarantee applies to every side whose Shutdown returned nil by itself (before the transports were closed)
		var retNil [2]bool
		for side, r := range calls {
			if r == nil {
				continue
			}
			select {
			case <-r.done:
				retNil[side] = r.err == nil && r.t1 < closeT
			default:
			}
		}
		for side := 0; side < 2; side++ {
			if st := sim.getAssoc(side).getState(); st != closed {
				res.violate("C08", "close/not-closed-after-transport", "side %d: state %d after its transport was closed", side, st)
			}
		}
		w.waitReaders(10 * time.Second)
		sim.net.stop()
		vfSimByNet.Delete(sim.net)
		sim.closed = true
		<-sim.connDone[0]
		<-sim.connDone[1]
		sim.finalLeakCheck()
		sim.runMonitors(vfMonCfg{})
		// delivery: everything accepted before the call by a side whose Shutdown returned nil
		for _, run := range w.allRuns() {
			st := vfCheckDelivery(res, "C08", run, retNil[run.wside])
			run.mu.Lock()
			end := run.readEnd
			nr := len(run.reads)
			for _, rd := range run.reads {
				if lateHashes[rd.Hash] {
					res.violate("C08", "late-write/delivered", "dir %d stream %d: the payload of a write rejected after Shutdown was read by the peer", run.cfg.Dir, run.cfg.SID)
				}
			}
			run.mu.Unlock()
			res.count("c08_streams_checked", 1)
			if retNil[run.wside] && st.Accepted > 0 {
				if end == nil {
					res.violate("C08", "reader/no-closure", "dir %d stream %d: reader never saw the stream end after Shutdown completed", run.cfg.Dir, run.cfg.SID)
				}
				if nr != st.Accepted {
					res.violate("C08", "deliver/count", "dir %d stream %d: Shutdown returned nil, %d messages were accepted before the call but the peer read %d before closure (%v)", run.cfg.Dir, run.cfg.SID, st.Accepted, nr, end)
				}
			}
		}
		hitKinds := ""
		seen := map[string]bool{}
		for _, e := range sim.net.events() {
			if e.Kind == vfWrWrite && e.Pkt != nil {
				k := vfFirstChunkKind(e.Raw)
				if (k == "SHUTDOWN" || k == "SHUTDOWN-ACK" || k == "SHUTDOWN-COMPLETE") && !seen[k] {
					seen[k] = true
					hitKinds += k + ","
				}
			}
		}
		sim.vfDumpTrace()
		res.res.Nontrivial = nFault > 0
		res.res.Sig = fmt.Sprintf("q%d|%s|%s", spec.x("q", 0), mode, spec.XS["faults"])
		res.res.Sample = map[string]any{"q": spec.x("q", 0), "mode": mode, "faults": spec.XS["faults"], "faults_hit": nFault, "shutdown_chunks_seen": hitKinds, "ret_a": fmt.Sprint(ra != nil && ra.err == nil), "framing_il": spec.A.IL && spec.B.IL}
	})
}

// allowed next states for the state x shutdown-chunk matrix.
func vfSDAllowed(st uint32, ck string, hasData bool) []uint32 {
	switch ck {
	case "shutdown-ack":
		if st == shutdownSent || st == shutdownAckSent {
			return []uint32{closed, st}
		}

		return []uint32{st}
	case "shutdown-complete":
		if st == shutdownAckSent {
			return []uint32{closed}
		}

		return []uint32{st}
	case "shutdown-invalid":
		switch st {
		case shutdownSent:
			return []uint32{shutdownAckSent}
		case shutdownAckSent:
			return []uint32{shutdownAckSent}
		default:
			return []uint32{st}
		}
	default: // valid / stale cumulative ack
		switch st {
		case established, shutdownPending, shutdownReceived:
			if hasData {
				return []uint32{shutdownReceived, shutdownAckSent}
			}

			return []uint32{shutdownAckSent, shutdownReceived}
		case shutdownSent, shutdownAckSent:
			return []uint32{shutdownAckSent}
		default:
			return []uint32{st}
		}
	}
}

func vfRunSDMatrix(t *testing.T, spec *vfSpec, res *vfRes) {
	vfRunBubble(t, spec.ID, func(t *testing.T) {
		sim := vfNewSim(t, spec, res)
		sim.invEvery = 1
		want := uint32(spec.x("state", int64(established))) //nolint:gosec
		var w *vfWork
		ok := vfReachState(sim, &w, want, "inflight")
		finish := func() {
			sim.net.dropQueued()
			sim.net.release()
			sim.teardown()
			if w != nil {
				w.waitReaders(10 * time.Second)
			}
			sim.finalLeakCheck()
		}
		if !ok {
			res.inconclusive("state not reached: " + vfStateNames[want])
			finish()

			return
		}
		a := sim.getAssoc(0)
		ti := vfTarget(a)
		pk := vfNewPacket(5000, 5000, ti.vtag)
		ck := spec.XS["chunk"]
		switch ck {
		case "shutdown-valid":
			pk.chunk(vfCtShutdown, 0, vfU32(ti.cumAck))
		case "shutdown-stale":
			pk.chunk(vfCtShutdown, 0, vfU32(ti.cumAck-100))
		case "shutdown-invalid":
			pk.chunk(vfCtShutdown, 0, vfU32(ti.nextTSN+1000))
		case "shutdown-ack":
			pk.chunk(vfCtShutdownAck, 0, nil)
		case "shutdown-complete":
			pk.chunk(vfCtShutdownComplete, 0, nil)
		}
		hasData := ti.inflight > 0
		sim.probe(0, pk.bytes(true), false)
		sim.quiesce()
		got := a.getState()
		okState := false
		for _, s := range vfSDAllowed(want, ck, hasData) {
			if s == got {
				okState = true
			}
		}
		res.count("c08_matrix_cells", 1)
		if !okState {
			res.violate("C08", fmt.Sprintf("matrix/%s/%s", vfStateNames[want], ck), "state %s + %s (data outstanding=%v) -> state %s, allowed %v", vfStateNames[want], ck, hasData, vfStateNames[got], vfSDAllowed(want, ck, hasData))
		}
		res.addSig(fmt.Sprintf("matrix|%s|%s", vfStateNames[want], ck))
		res.res.Nontrivial = true
		res.res.Sample = map[string]any{"kind": "sd-matrix", "state": vfStateNames[want], "chunk": ck, "next_state": vfStateNames[got]}
		finish()
	})
}

func init() { //nolint:gochecknoinits
	vfRegister(&vfProperty{
		id:   "C08",
		list: vfGenShutdownSpecs,
		run: func(t *testing.T, spec *vfSpec, res *vfRes) {
			if spec.Kind == "sd-matrix" {
				vfRunSDMatrix(t, spec, res)

				return
			}
			vfRunShutdown(t, spec, res)
		},
	})
}
