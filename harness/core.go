//go:build verif

package sctp

// Core of the runtime-monitoring harness: deterministic PRNG, scenario specs,
// verdict records, the per-process scenario runner with journal and watchdog.
// All identifiers are prefixed vf. See /verif/DESIGN.md section 2.

import (
	"bytes"
	"encoding/json"
	"fmt"
	"os"
	"runtime"
	"sort"
	"strconv"
	"strings"
	"sync"
	"sync/atomic"
	"testing"
	"time"
)

// ---------------------------------------------------------------- PRNG

type vfRand struct{ s uint64 }

func vfNewRand(seed uint64) *vfRand {
	r := &vfRand{s: seed*0x9E3779B97F4A7C15 + 0xD1B54A32D192ED03}
	r.Uint64()
	r.Uint64()

	return r
}

func (r *vfRand) Uint64() uint64 {
	// splitmix64
	r.s += 0x9E3779B97F4A7C15
	z := r.s
	z = (z ^ (z >> 30)) * 0xBF58476D1CE4E5B9
	z = (z ^ (z >> 27)) * 0x94D049BB133111EB

	return z ^ (z >> 31)
}

func (r *vfRand) Intn(n int) int {
	if n <= 0 {
		return 0
	}

	return int(r.Uint64() % uint64(n))
}

func (r *vfRand) Uint32() uint32 { return uint32(r.Uint64() >> 32) }

func (r *vfRand) Pm(pm int) bool { return r.Intn(1000) < pm }

func (r *vfRand) Pick(xs ...int) int { return xs[r.Intn(len(xs))] }

func vfHash(vals ...uint64) uint64 {
	h := uint64(0xcbf29ce484222325)
	for _, v := range vals {
		h ^= v
		h *= 0x100000001b3
		h ^= h >> 29
		h *= 0xBF58476D1CE4E5B9
		h ^= h >> 32
	}

	return h
}

func vfHashBytes(b []byte) uint64 {
	h := uint64(0xcbf29ce484222325)
	for _, c := range b {
		h ^= uint64(c)
		h *= 0x100000001b3
	}

	return h
}

// ---------------------------------------------------------------- spec

// vfSideCfg configures one endpoint.
type vfSideCfg struct {
	IL         bool    `json:"il"`
	ZC         bool    `json:"zc"`
	MTU        uint32  `json:"mtu,omitempty"`
	RecvBuf    uint32  `json:"rbuf,omitempty"`
	MaxMsg     uint32  `json:"maxmsg,omitempty"`
	BlockWrite bool    `json:"bw,omitempty"`
	RTOMaxMs   float64 `json:"rtomax,omitempty"`
	MinCwnd    uint32  `json:"mincwnd,omitempty"`
	MaxReasm   uint32  `json:"maxreasm,omitempty"`
	InitTSN    uint32  `json:"tsn"`
	Tag        uint32  `json:"tag"`
	Sched      string  `json:"sched,omitempty"` // "", "wfq", "rr"
	Weights    []int   `json:"w,omitempty"`     // weight for stream i (1-based index = sid)
}

type vfFault struct {
	Dir     int    `json:"dir"`            // 0: A->B, 1: B->A
	Kind    string `json:"kind"`           // first-chunk kind name, or "any"
	Nth     int    `json:"nth"`            // the n-th (1-based) packet of that kind in that direction
	Act     string `json:"act"`            // drop | dup | delay
	DelayUs int64  `json:"delay,omitempty"` // for delay/dup
	Rel     bool   `json:"rel,omitempty"`   // Nth counts from the instant vfNet.markRel was called (kind "any" only)
}

type vfLinkCfg struct {
	DelayUs    int64     `json:"delay"`
	JitterUs   int64     `json:"jitter,omitempty"`
	LossPm     int       `json:"loss,omitempty"`
	DupPm      int       `json:"dup,omitempty"`
	BurstPm    int       `json:"burstpm,omitempty"`
	BurstLen   int       `json:"burstlen,omitempty"`
	SackLossPm int       `json:"sackloss,omitempty"`
	DataLossPm int       `json:"dataloss,omitempty"`
	HealUs     int64     `json:"heal,omitempty"` // virtual µs after establishment; 0 = stochastic faults never stop
	Blackouts  [][3]int64 `json:"blackouts,omitempty"`
	Script     []vfFault `json:"script,omitempty"`
	HoleTSN    uint32    `json:"holetsn,omitempty"`   // direction 0: packets carrying this TSN ...
	HoleTimes  int       `json:"holetimes,omitempty"` // ... are dropped this many times
	Lockstep   bool      `json:"lockstep,omitempty"`
	FaultsFromStart bool `json:"ffs,omitempty"` // apply stochastic faults to the handshake as well
}

type vfStreamCfg struct {
	SID       uint16 `json:"sid"`
	Dir       int    `json:"dir"`
	Unordered bool   `json:"unord,omitempty"`
	RelType   byte   `json:"rel,omitempty"`
	RelVal    uint32 `json:"relval,omitempty"`
	NMsgs     int    `json:"n"`
	SizeMode  string `json:"sizes"` // tiny|small|mixed|boundary|big|max|one
	GapUs     int64  `json:"gap,omitempty"`
	Reader    string `json:"reader,omitempty"` // fast|slow|pause|short
	PPIMode   string `json:"ppi,omitempty"`
	DCEPEvery int    `json:"dcep,omitempty"`
	Close     bool   `json:"close,omitempty"`
	Mix       bool   `json:"mix,omitempty"`     // change ordering/reliability between writes
	RecvCfg   bool   `json:"recvcfg,omitempty"` // reader side sets the same reliability params on its stream
}

// vfSpec is one scenario; it is a pure function of (property, tier, seed, index)
// and is what a replay file contains.
type vfSpec struct {
	Prop    string           `json:"prop"`
	Kind    string           `json:"kind"`
	ID      string           `json:"id"`
	Seed    uint64           `json:"seed"`
	Roles   string           `json:"roles,omitempty"` // cs | cc | snap
	A       vfSideCfg        `json:"a"`
	B       vfSideCfg        `json:"b"`
	Link    vfLinkCfg        `json:"link"`
	Streams []vfStreamCfg    `json:"streams,omitempty"`
	Yield   int              `json:"yield,omitempty"` // per-mille of armed vfYield sites
	Procs   int              `json:"procs,omitempty"`
	X       map[string]int64 `json:"x,omitempty"`
	XS      map[string]string `json:"xs,omitempty"`
}

func (s *vfSpec) x(k string, def int64) int64 {
	if v, ok := s.X[k]; ok {
		return v
	}

	return def
}

// ---------------------------------------------------------------- results

type vfViolation struct {
	Prop string `json:"prop"`
	Key  string `json:"key"` // machine-matchable signature
	Msg  string `json:"msg"`
}

type vfScenarioResult struct {
	ID         string           `json:"id"`
	Kind       string           `json:"kind"`
	Verdict    string           `json:"verdict"` // held | violated | inconclusive
	Why        string           `json:"why,omitempty"`
	Sig        string           `json:"sig,omitempty"`
	Sigs       []string         `json:"sigs,omitempty"` // batch scenarios: signatures of the non-trivial cases inside
	Evals      int64            `json:"evals,omitempty"` // batch scenarios: number of cases evaluated inside
	Nontrivial bool             `json:"nontrivial"`
	Violations []vfViolation    `json:"violations,omitempty"`
	Counters   map[string]int64 `json:"counters,omitempty"`
	Sample     any              `json:"sample,omitempty"`
	Spec       *vfSpec          `json:"spec,omitempty"`
	WallMs     int64            `json:"wall_ms"`
	Witness    []string         `json:"witness,omitempty"`
}

type vfShardResult struct {
	Prop      string             `json:"prop"`
	Tier      string             `json:"tier"`
	Seed      uint64             `json:"seed"`
	Shard     int                `json:"shard"`
	NShards   int                `json:"nshards"`
	From      int                `json:"from"`
	Total     int                `json:"total"`
	Done      int                `json:"done"`
	Race      bool               `json:"race"`
	Scenarios []vfScenarioResult `json:"scenarios"`
}

// vfRes is the mutable per-scenario result the monitors write into.
type vfRes struct {
	mu       sync.Mutex
	res      vfScenarioResult
	mech     map[string]bool
	maxViol  int
	witnessN int
	sigset   map[string]bool
	rewrite  func(prop, key string) (string, string) // attribution of shared monitors inside a scenario (e.g. C03: state corrupted by hostile input)
}

func vfNewRes(spec *vfSpec) *vfRes {
	return &vfRes{
		res:     vfScenarioResult{ID: spec.ID, Kind: spec.Kind, Counters: map[string]int64{}},
		mech:    map[string]bool{},
		maxViol: 12,
	}
}

func (r *vfRes) violate(prop, key, format string, args ...any) {
	r.mu.Lock()
	defer r.mu.Unlock()
	if r.rewrite != nil {
		prop, key = r.rewrite(prop, key)
	}
	r.res.Counters["violations_raw"]++
	for _, v := range r.res.Violations {
		if v.Prop == prop && v.Key == key {
			return
		}
	}
	if len(r.res.Violations) >= r.maxViol {
		return
	}
	r.res.Violations = append(r.res.Violations, vfViolation{Prop: prop, Key: key, Msg: fmt.Sprintf(format, args...)})
}

func (r *vfRes) inconclusive(why string) {
	r.mu.Lock()
	defer r.mu.Unlock()
	if r.res.Why == "" {
		r.res.Why = why
	}
	r.res.Verdict = "inconclusive"
}

func (r *vfRes) count(k string, n int64) {
	vfProgress.Add(1)
	r.mu.Lock()
	r.res.Counters[k] += n
	r.mu.Unlock()
}

func (r *vfRes) maxc(k string, n int64) {
	r.mu.Lock()
	if r.res.Counters[k] < n {
		r.res.Counters[k] = n
	}
	r.mu.Unlock()
}

func (r *vfRes) get(k string) int64 {
	r.mu.Lock()
	defer r.mu.Unlock()

	return r.res.Counters[k]
}

func (r *vfRes) seen(m string) {
	r.mu.Lock()
	r.mech[m] = true
	r.mu.Unlock()
}

func (r *vfRes) has(m string) bool {
	r.mu.Lock()
	defer r.mu.Unlock()

	return r.mech[m]
}

func (r *vfRes) witness(format string, args ...any) {
	r.mu.Lock()
	if len(r.res.Witness) < 60 {
		r.res.Witness = append(r.res.Witness, fmt.Sprintf(format, args...))
	}
	r.mu.Unlock()
}

func (r *vfRes) mechs() string {
	r.mu.Lock()
	defer r.mu.Unlock()
	ms := make([]string, 0, len(r.mech))
	for m := range r.mech {
		ms = append(ms, m)
	}
	sort.Strings(ms)

	return strings.Join(ms, "+")
}

func (r *vfRes) addSig(sig string) {
	r.mu.Lock()
	if r.sigset == nil {
		r.sigset = map[string]bool{}
	}
	if !r.sigset[sig] && len(r.sigset) < 4096 {
		r.sigset[sig] = true
		r.res.Sigs = append(r.res.Sigs, sig)
	}
	r.mu.Unlock()
}

func (r *vfRes) nviol() int {
	r.mu.Lock()
	defer r.mu.Unlock()

	return len(r.res.Violations)
}

// ---------------------------------------------------------------- env

type vfEnv struct {
	prop, tier  string
	seed        uint64
	from, to    int // scenario index range [from,to) with stride
	shard, n    int
	out         string
	journal     string
	replay      string
	race        bool
	watchdogSec int
}

func vfGetenvInt(k string, def int) int {
	if v := os.Getenv(k); v != "" {
		if n, err := strconv.Atoi(v); err == nil {
			return n
		}
	}

	return def
}

func vfLoadEnv() vfEnv {
	e := vfEnv{
		prop:        os.Getenv("VF_PROP"),
		tier:        os.Getenv("VF_TIER"),
		out:         os.Getenv("VF_OUT"),
		journal:     os.Getenv("VF_JOURNAL"),
		replay:      os.Getenv("VF_REPLAY"),
		shard:       vfGetenvInt("VF_SHARD", 0),
		n:           vfGetenvInt("VF_NSHARDS", 1),
		from:        vfGetenvInt("VF_FROM", 0),
		watchdogSec: vfGetenvInt("VF_WATCHDOG", 60),
		race:        vfRaceEnabled,
	}
	if e.tier == "" {
		e.tier = "quick"
	}
	s, _ := strconv.ParseUint(os.Getenv("VF_SEED"), 10, 64)
	e.seed = s

	return e
}

// ---------------------------------------------------------------- registry

type vfProperty struct {
	id string
	// list returns the full scenario list for (tier, seed); raceSlice=true asks
	// for the (smaller) slice that is run under the race detector.
	list func(tier string, seed uint64, race bool) []vfSpec
	run  func(t *testing.T, spec *vfSpec, res *vfRes)
}

var vfProps = map[string]*vfProperty{} //nolint:gochecknoglobals

func vfRegister(p *vfProperty) { vfProps[p.id] = p }

// ---------------------------------------------------------------- watchdog

type vfWatch struct {
	deadline atomic.Int64 // silence budget in nanoseconds, 0 = off
	started  atomic.Int64 // unix nano at which the current scenario started
	cur      atomic.Pointer[vfWatchCtx]
}

type vfWatchCtx struct {
	spec *vfSpec
	res  *vfRes
	env  *vfEnv
	sr   *vfShardResult
}

var vfWatchdog vfWatch //nolint:gochecknoglobals

// vfProgress is bumped by everything the monitors observe (wire events, hook events, API calls, counters).
var vfProgress atomic.Int64 //nolint:gochecknoglobals

// vfWatchLoop runs outside any bubble, on real time. If a scenario exceeds its
// wall-clock budget it dumps all goroutines, classifies the dump and exits the
// process; the verdict of the classification is a lock deadlock (violation) or
// inconclusive, never anything else.
func vfWatchLoop() {
	var lastProg int64 = -1
	var lastChange time.Time
	var lastCtx *vfWatchCtx
	for {
		time.Sleep(500 * time.Millisecond)
		d := vfWatchdog.deadline.Load()
		ctx := vfWatchdog.cur.Load()
		if d == 0 || ctx == nil {
			lastCtx = nil

			continue
		}
		now := time.Now()
		if p := vfProgress.Load(); ctx != lastCtx || p != lastProg {
			lastCtx, lastProg, lastChange = ctx, p, now
		}
		// The budget is a budget of *silence*: a scenario that still produces wire events, hook events,
		// API calls or monitor counts is slow (loaded machine, race build), not hung. Only when nothing
		// was observed for the whole budget is the dump classified; a scenario that keeps making progress
		// is cut off after five budgets as inconclusive.
		budget := time.Duration(d)
		stalled := now.Sub(lastChange) >= budget
		overrun := now.Sub(time.Unix(0, vfWatchdog.started.Load())) >= 5*budget
		if !stalled && !overrun {
			continue
		}
		buf := make([]byte, 8<<20)
		n := runtime.Stack(buf, true)
		dump := string(buf[:n])
		class, detail := vfClassifyDump(dump)
		if !stalled {
			class, detail = "slow", ""
		}
		if class == "mutex-deadlock" || class == "spin" {
			// a deadlock is stable: a second dump one second later must show the same picture
			time.Sleep(time.Second)
			n2 := runtime.Stack(buf, true)
			if c2, _ := vfClassifyDump(string(buf[:n2])); c2 != class {
				class, detail = "unclassified", ""
			}
		}
		r := ctx.res
		r.mu.Lock()
		res := r.res
		// the scenario may still be running: detach the maps it mutates
		res.Counters = map[string]int64{}
		for k, v := range r.res.Counters {
			res.Counters[k] = v
		}
		res.Violations = append([]vfViolation(nil), r.res.Violations...)
		res.Witness = append([]string(nil), r.res.Witness...)
		r.mu.Unlock()
		res.Spec = ctx.spec
		res.Why = "watchdog: " + class
		switch class {
		case "mutex-deadlock":
			res.Verdict = "violated"
			res.Violations = append(res.Violations, vfViolation{
				Prop: vfHangProp(ctx.spec.Prop), Key: "hang/mutex-deadlock/" + ctx.spec.Kind,
				Msg: "goroutines parked on sctp mutexes and the simulation cannot make progress: " + detail,
			})
		case "spin":
			res.Verdict = "violated"
			res.Violations = append(res.Violations, vfViolation{
				Prop: vfHangProp(ctx.spec.Prop), Key: "hang/spin/" + ctx.spec.Kind,
				Msg: "a goroutine with sctp frames kept running for the whole watchdog budget: " + detail,
			})
		default:
			res.Verdict = "inconclusive"
		}
		lines := strings.Split(dump, "\n")
		if len(lines) > 400 {
			lines = lines[:400]
		}
		res.Witness = append(res.Witness, lines...)
		ctx.sr.Scenarios = append(ctx.sr.Scenarios, res)
		ctx.sr.Done++
		vfWriteShard(ctx.env, ctx.sr)
		fmt.Fprintf(os.Stderr, "VF-WATCHDOG scenario=%s class=%s\n", ctx.spec.ID, class)
		os.Exit(3)
	}
}

func vfHangProp(p string) string {
	switch p {
	case "C03", "C09", "C15", "C20":
		return p
	}

	return p
}

// vfClassifyDump looks for goroutines blocked in sync.(*Mutex).Lock /
// sync.(*RWMutex).(R)Lock with pion/sctp frames (lock deadlock), or a running
// goroutine inside sctp code (spin).
func vfClassifyDump(dump string) (string, string) {
	blocks := strings.Split(dump, "\n\n")
	nMutex, nRun := 0, 0
	var first string
	for _, b := range blocks {
		if !strings.Contains(b, "pion/sctp.") {
			continue
		}
		head := b
		if i := strings.Index(b, "\n"); i > 0 {
			head = b[:i]
		}
		isHarnessOnly := !vfHasNonHarnessFrame(b)
		if strings.Contains(head, "sync.Mutex.Lock") || strings.Contains(head, "sync.RWMutex") ||
			strings.Contains(head, "semacquire") {
			if strings.Contains(b, "sync.(*Mutex).Lock") || strings.Contains(b, "sync.(*RWMutex).") {
				nMutex++
				if first == "" {
					first = vfFirstSctpFrame(b)
				}
			}
		} else if strings.Contains(head, "[running") || strings.Contains(head, "[runnable") {
			if !isHarnessOnly && !strings.Contains(b, "vfWatchLoop") {
				nRun++
				if first == "" {
					first = vfFirstSctpFrame(b)
				}
			}
		}
	}
	if nMutex > 0 && nRun == 0 {
		return "mutex-deadlock", fmt.Sprintf("%d goroutine(s), first at %s", nMutex, first)
	}
	if nRun > 0 && nMutex == 0 {
		return "spin", fmt.Sprintf("%d goroutine(s), first at %s", nRun, first)
	}

	return "unclassified", ""
}

// vfFrames splits a goroutine block into (function, file) pairs.
func vfFrames(b string) [][2]string {
	lines := strings.Split(b, "\n")
	var out [][2]string
	for i := 0; i+1 < len(lines); i++ {
		if strings.HasPrefix(lines[i+1], "\t") && !strings.HasPrefix(lines[i], "\t") && !strings.HasPrefix(lines[i], "goroutine ") {
			out = append(out, [2]string{lines[i], strings.TrimSpace(lines[i+1])})
			i++
		}
	}

	return out
}

// a frame belongs to pion/sctp proper if its function is in the package and its file is not a harness file.
func vfIsSctpFrame(f [2]string) bool {
	fn := strings.TrimPrefix(f[0], "created by ")

	return strings.Contains(fn, "pion/sctp.") && !strings.Contains(f[1], "zz_vf_")
}

func vfHasNonHarnessFrame(b string) bool {
	for _, f := range vfFrames(b) {
		if vfIsSctpFrame(f) && !strings.HasPrefix(f[0], "created by ") {
			return true
		}
	}

	return false
}

func vfFirstSctpFrame(b string) string {
	for _, f := range vfFrames(b) {
		if vfIsSctpFrame(f) && !strings.HasPrefix(f[0], "created by ") {
			return strings.TrimSpace(f[0])
		}
	}

	return ""
}

// ---------------------------------------------------------------- runner

func vfWriteShard(env *vfEnv, sr *vfShardResult) {
	if env.out == "" {
		return
	}
	b, err := json.Marshal(sr)
	if err != nil {
		fmt.Fprintf(os.Stderr, "VF: marshal shard result: %v\n", err)

		return
	}
	tmp := env.out + ".tmp"
	if err := os.WriteFile(tmp, b, 0o644); err == nil { //nolint:gosec
		_ = os.Rename(tmp, env.out)
	}
}

func vfJournal(env *vfEnv, idx int, spec *vfSpec) {
	if env.journal == "" {
		return
	}
	b, _ := json.Marshal(spec)
	var buf bytes.Buffer
	fmt.Fprintf(&buf, "%d ", idx)
	buf.Write(b)
	buf.WriteByte('\n')
	_ = os.WriteFile(env.journal, buf.Bytes(), 0o644) //nolint:gosec
}

// TestVF is the single entry point of the harness binary.
func TestVF(t *testing.T) {
	env := vfLoadEnv()
	if env.prop == "" {
		t.Skip("VF_PROP not set")
	}
	p := vfProps[env.prop]
	if p == nil {
		t.Fatalf("unknown property %q", env.prop)
	}
	go vfWatchLoop()

	var specs []vfSpec
	if env.replay != "" {
		b, err := os.ReadFile(env.replay)
		if err != nil {
			t.Fatalf("replay: %v", err)
		}
		var rf struct {
			Spec *vfSpec `json:"spec"`
		}
		if err := json.Unmarshal(b, &rf); err != nil || rf.Spec == nil {
			t.Fatalf("replay: cannot parse spec from %s: %v", env.replay, err)
		}
		n := vfGetenvInt("VF_REPLAY_N", 5)
		for i := 0; i < n; i++ {
			specs = append(specs, *rf.Spec)
		}
		env.n, env.shard, env.from = 1, 0, 0
	} else {
		vfCurrentProp = env.prop
		specs = p.list(env.tier, env.seed, env.race)
	}

	sr := &vfShardResult{
		Prop: env.prop, Tier: env.tier, Seed: env.seed, Shard: env.shard, NShards: env.n,
		From: env.from, Total: len(specs), Race: env.race,
	}
	vfWriteShard(&env, sr)
	lastWrite := time.Now()
	for i := range specs {
		if i%env.n != env.shard || i < env.from {
			continue
		}
		spec := &specs[i]
		spec.Prop = env.prop
		vfJournal(&env, i, spec)
		res := vfNewRes(spec)
		vfWatchdog.cur.Store(&vfWatchCtx{spec: spec, res: res, env: &env, sr: sr})
		vfWatchdog.started.Store(time.Now().UnixNano())
		vfWatchdog.deadline.Store(int64(time.Duration(env.watchdogSec) * time.Second))
		start := time.Now()
		if spec.Procs > 0 {
			runtime.GOMAXPROCS(spec.Procs)
		} else {
			runtime.GOMAXPROCS(4)
		}
		p.run(t, spec, res)
		vfWatchdog.deadline.Store(0)
		res.mu.Lock()
		out := res.res
		res.mu.Unlock()
		out.WallMs = time.Since(start).Milliseconds()
		if len(out.Violations) > 0 {
			out.Verdict = "violated"
			out.Spec = spec
		} else if out.Verdict == "" {
			out.Verdict = "held"
		}
		if out.Verdict == "inconclusive" {
			out.Spec = spec
		}
		if out.Sig == "" {
			out.Sig = res.mechs()
		}
		if out.Verdict == "held" {
			out.Witness = nil
		}
		sr.Scenarios = append(sr.Scenarios, out)
		sr.Done++
		if time.Since(lastWrite) > 2*time.Second {
			vfWriteShard(&env, sr)
			lastWrite = time.Now()
		}
	}
	vfWriteShard(&env, sr)
}
