//go:build verif

package sctp

// C04 — handshake agreement under packet faults, clean failure otherwise.
// Fault schedules over the handshake packets are enumerated (all single faults,
// all pairs in the thorough tier, sampled pairs/triples otherwise) for every
// role assignment and all 16 combinations of per-side options.

import (
	"math"
	"errors"
	"fmt"
	"testing"
	"time"
)

var vfHSActions = []string{"drop", "dup", "delay", "late", "stale"} //nolint:gochecknoglobals

func vfHSFault(dir, ord int, act string) vfFault {
	f := vfFault{Dir: dir, Kind: "any", Nth: ord}
	switch act {
	case "drop":
		f.Act = "drop"
	case "dup":
		f.Act, f.DelayUs = "dup", 2000
	case "delay": // past the next retransmission of the same packet
		f.Act, f.DelayUs = "delay", 1500000
	case "late": // the packet arrives, and a duplicate arrives long after establishment
		f.Act, f.DelayUs = "dup", 5000000
	case "stale": // the packet itself arrives long after a retransmission established the association
		f.Act, f.DelayUs = "delay", 5000000
	}

	return f
}

type vfHSFaultID struct {
	dir, ord int
	act      string
}

func vfAllSingleFaults() []vfHSFaultID {
	var out []vfHSFaultID
	for dir := 0; dir < 2; dir++ {
		for ord := 1; ord <= 4; ord++ {
			for _, a := range vfHSActions {
				out = append(out, vfHSFaultID{dir, ord, a})
			}
		}
	}

	return out
}

func vfGenHandshakeSpecs(tier string, seed uint64, race bool) []vfSpec {
	var out []vfSpec
	singles := vfAllSingleFaults()
	roles := []string{"cs", "cc", "cc-skew-small", "cc-skew-large", "snap"}
	idx := 0
	mk := func(role string, opts int, faults []vfHSFaultID) {
		r := vfNewRand(vfHash(seed, uint64(idx), 0xC04))
		sp := vfSpec{Prop: "C04", Kind: "hs", ID: fmt.Sprintf("C04-hs-%d", idx), Seed: r.Uint64()}
		sp.A = vfSideCfg{IL: opts&1 != 0, ZC: opts&2 != 0, InitTSN: vfPickTSN(r, r.Intn(3)), Tag: r.Uint32() | 1}
		sp.B = vfSideCfg{IL: opts&4 != 0, ZC: opts&8 != 0, InitTSN: vfPickTSN(r, r.Intn(3)), Tag: r.Uint32() | 1}
		sp.Link = vfLinkCfg{DelayUs: 10000}
		sp.X = map[string]int64{}
		switch role {
		case "cs", "snap":
			sp.Roles = role
		case "cc":
			sp.Roles = "cc"
		case "cc-skew-small":
			sp.Roles = "cc"
			sp.X["skew_us"] = int64(1000 + r.Intn(15000))
		case "cc-skew-large":
			sp.Roles = "cc"
			sp.X["skew_us"] = int64(25000 + r.Intn(60000))
		}
		sp.XS = map[string]string{"role": role}
		desc := ""
		for _, f := range faults {
			sp.Link.Script = append(sp.Link.Script, vfHSFault(f.dir, f.ord, f.act))
			desc += fmt.Sprintf("%d.%d.%s ", f.dir, f.ord, f.act)
		}
		sp.XS["faults"] = desc
		sp.Streams = []vfStreamCfg{
			{SID: 1, Dir: 0, NMsgs: 2, SizeMode: "boundary", Reader: "fast"},
			{SID: 2, Dir: 1, NMsgs: 2, SizeMode: "boundary", Reader: "fast"},
		}
		out = append(out, sp)
		idx++
	}
	pairsPerCombo := vfTierN(tier, 60, -1) // -1: all pairs
	triplesPerCombo := vfTierN(tier, 10, 60)
	if race {
		pairsPerCombo, triplesPerCombo = 1, 0
	}
	for _, role := range roles {
		for opts := 0; opts < 16; opts++ {
			r := vfNewRand(vfHash(seed, uint64(opts), uint64(len(role)), 0x4c))
			mk(role, opts, nil)
			if role == "snap" {
				continue // no handshake packets on the wire
			}
			if race {
				for k := 0; k < 2; k++ {
					mk(role, opts, []vfHSFaultID{singles[r.Intn(len(singles))]})
				}
			} else {
				for _, f := range singles {
					mk(role, opts, []vfHSFaultID{f})
				}
			}
			if pairsPerCombo < 0 {
				for i := 0; i < len(singles); i++ {
					for j := i + 1; j < len(singles); j++ {
						if singles[i].dir == singles[j].dir && singles[i].ord == singles[j].ord {
							continue
						}
						mk(role, opts, []vfHSFaultID{singles[i], singles[j]})
					}
				}
			} else {
				for k := 0; k < pairsPerCombo; k++ {
					a, b := singles[r.Intn(len(singles))], singles[r.Intn(len(singles))]
					if a.dir == b.dir && a.ord == b.ord {
						continue
					}
					mk(role, opts, []vfHSFaultID{a, b})
				}
			}
			for k := 0; k < triplesPerCombo; k++ {
				a, b, c := singles[r.Intn(len(singles))], singles[r.Intn(len(singles))], singles[r.Intn(len(singles))]
				mk(role, opts, []vfHSFaultID{a, b, c})
			}
		}
	}
	// failure half
	nf := vfTierN(tier, 24, 120)
	if race {
		nf = 6
	}
	for i := 0; i < nf; i++ {
		r := vfNewRand(vfHash(seed, uint64(i), 0xfa11))
		kind := []string{"silent", "cookie-silent", "server-close"}[i%3]
		sp := vfSpec{Prop: "C04", Kind: kind, ID: fmt.Sprintf("C04-%s-%d", kind, i), Seed: r.Uint64()}
		sp.A = vfSideCfg{IL: r.Intn(2) == 0, ZC: r.Intn(2) == 0, InitTSN: r.Uint32(), Tag: r.Uint32() | 1}
		sp.A.RTOMaxMs = float64(r.Pick(0, 0, 1500, 3000, 10000))
		sp.Link = vfLinkCfg{DelayUs: int64(r.Pick(1000, 10000, 50000))}
		sp.X = map[string]int64{"close_after_ms": int64(r.Intn(5000))}
		out = append(out, sp)
	}

	return out
}

func vfCheckMetadata(s *vfSim, res *vfRes) {
	a, b := s.A(), s.B()
	ma, oka := a.Metadata()
	mb, okb := b.Metadata()
	if !oka || !okb {
		res.violate("C04", "meta/not-ready", "Metadata() not available after both connect calls returned: %v %v", oka, okb)

		return
	}
	want := s.spec.A.IL && s.spec.B.IL
	if ma.MessageInterleavingEnabled != want || mb.MessageInterleavingEnabled != want {
		res.violate("C04", fmt.Sprintf("meta/interleaving/a%v-b%v", s.spec.A.IL, s.spec.B.IL), "interleaving options A=%v B=%v: Metadata says A=%v B=%v, expected %v on both", s.spec.A.IL, s.spec.B.IL, ma.MessageInterleavingEnabled, mb.MessageInterleavingEnabled, want)
	}
	wantPR := PartialReliabilityModeForwardTSN
	if want {
		wantPR = PartialReliabilityModeIForwardTSN
	}
	if ma.PartialReliabilityMode != wantPR || mb.PartialReliabilityMode != wantPR {
		res.violate("C04", "meta/pr-mode", "interleaving negotiated=%v: PartialReliabilityMode A=%d B=%d, expected %d on both", want, ma.PartialReliabilityMode, mb.PartialReliabilityMode, wantPR)
	}
	if ma.ZeroChecksumSendingEnabled != s.spec.B.ZC || mb.ZeroChecksumSendingEnabled != s.spec.A.ZC {
		res.violate("C04", fmt.Sprintf("meta/zero-checksum-send/a%v-b%v", s.spec.A.ZC, s.spec.B.ZC), "zero-checksum options A=%v B=%v: sending enabled A=%v (must equal B's option) B=%v (must equal A's option)", s.spec.A.ZC, s.spec.B.ZC, ma.ZeroChecksumSendingEnabled, mb.ZeroChecksumSendingEnabled)
	}
	if ma.ZeroChecksumReceivingEnabled != s.spec.A.ZC || mb.ZeroChecksumReceivingEnabled != s.spec.B.ZC {
		res.violate("C04", "meta/zero-checksum-recv", "zero-checksum options A=%v B=%v: receiving enabled A=%v B=%v", s.spec.A.ZC, s.spec.B.ZC, ma.ZeroChecksumReceivingEnabled, mb.ZeroChecksumReceivingEnabled)
	}
	res.count("c04_metadata_checked", 1)
}

func vfRunHandshake(t *testing.T, spec *vfSpec, res *vfRes) {
	vfRunBubble(t, spec.ID, func(t *testing.T) {
		sim := vfNewSim(t, spec, res)
		ok := sim.start()
		estT := sim.net.now()
		nFault := sim.net.faultsHit()
		res.count("c04_faults_hit", int64(nFault))
		if !ok {
			res.violate("C04", "establish/failed/"+spec.XS["role"], "role %s, options A(il=%v zc=%v) B(il=%v zc=%v), faults [%s]: connect calls returned %v / %v", spec.XS["role"], spec.A.IL, spec.A.ZC, spec.B.IL, spec.B.ZC, spec.XS["faults"], sim.connErr[0], sim.connErr[1])
			sim.teardown()
			sim.finalLeakCheck()

			return
		}
		if estT > 60*time.Second {
			res.violate("C04", "establish/slow", "establishment took %v of virtual time with faults [%s]", estT, spec.XS["faults"])
		}
		vfCheckMetadata(sim, res)
		w := sim.newWork()
		for _, sc := range spec.Streams {
			w.addStream(sc, 0)
		}
		drained := w.waitWriters(time.Minute) && w.waitDrained(2*time.Minute)
		if !drained {
			res.violate("C04", "post/no-transfer", "after establishment with faults [%s] one message per direction could not be delivered", spec.XS["faults"])
		}
		// let late duplicates / stale originals of handshake packets arrive
		time.Sleep(6 * time.Second)
		// replay every handshake packet seen on the wire into the established pair
		var hs []*vfWireEv
		for _, e := range sim.net.events() {
			if e.Kind != vfWrWrite {
				continue
			}
			switch vfFirstChunkKind(e.Raw) {
			case "INIT", "INIT-ACK", "COOKIE-ECHO", "COOKIE-ACK":
				hs = append(hs, e)
			}
		}
		for _, e := range hs {
			to := 1 - e.Side
			a := sim.getAssoc(to)
			pr := sim.probe(to, e.Raw, false)
			res.count("c04_replays", 1)
			if a.getState() != established || pr.diff != "" {
				res.violate("C04", "replay/disturbed/"+vfFirstChunkKind(e.Raw), "replaying %s into the established association (side %d) disturbed it: state=%d %s", vfFirstChunkKind(e.Raw), to, a.getState(), pr.diff)

				break
			}
		}
		if sim.A().getState() == established && sim.B().getState() == established {
			w.addStream(vfStreamCfg{SID: 7, Dir: 0, NMsgs: 2, SizeMode: "small", Reader: "fast"}, 0)
			w.addStream(vfStreamCfg{SID: 8, Dir: 1, NMsgs: 2, SizeMode: "small", Reader: "fast"}, 0)
			if !(w.waitWriters(time.Minute) && w.waitDrained(2*time.Minute)) {
				res.violate("C04", "post/no-transfer-after-replay", "after replaying handshake packets data no longer flows")
			}
		}
		// a quiet period longer than the whole T1 retry budget: an established endpoint must have stopped its
		// handshake timers (no INIT / COOKIE-ECHO any more) and must stay responsive when they would have run out
		time.Sleep(vfExpectedT1(math.Max(spec.A.RTOMaxMs, spec.B.RTOMaxMs)) + time.Minute)
		for _, e := range sim.net.events() {
			if e.Kind != vfWrWrite || e.T <= estT {
				continue
			}
			if k := vfFirstChunkKind(e.Raw); k == "INIT" || k == "COOKIE-ECHO" {
				res.violate("C04", "post/stale-"+k, "side %d wrote %s at %v, %v after both connect calls had returned (faults [%s], role %s): a handshake timer survived establishment", e.Side, k, e.T, e.T-estT, spec.XS["faults"], spec.XS["role"])

				break
			}
		}
		for side := 0; side < 2; side++ {
			a := sim.getAssoc(side)
			done := make(chan struct{})
			go func() {
				_ = a.BufferedAmount()
				_, _ = a.Metadata()
				close(done)
			}()
			if vfWaitCh(done, time.Second) != nil {
				res.violate("C04", "post/wedged", "side %d: BufferedAmount() does not return after the quiet period (faults [%s], role %s)", side, spec.XS["faults"], spec.XS["role"])
			}
		}
		res.count("c04_quiet_periods", 1)
		sim.quiesce()
		sim.teardown()
		w.waitReaders(10 * time.Second)
		sim.finalLeakCheck()
		sim.runMonitors(vfMonCfg{})
		for _, run := range w.allRuns() {
			vfCheckDelivery(res, "C04", run, drained)
		}
		res.res.Nontrivial = nFault > 0
		res.res.Sig = fmt.Sprintf("%s|il%v%v|zc%v%v|%s", spec.XS["role"], spec.A.IL, spec.B.IL, spec.A.ZC, spec.B.ZC, spec.XS["faults"])
		res.res.Sample = map[string]any{"role": spec.XS["role"], "a": spec.A, "b": spec.B, "faults": spec.XS["faults"], "faults_hit": nFault, "established_after": estT.String(), "handshake_packets_replayed": len(hs)}
	})
}

func vfExpectedT1(rtoMaxMs float64) time.Duration {
	if rtoMaxMs == 0 {
		rtoMaxMs = 60000
	}
	var sum float64
	for i := 0; i <= 8; i++ {
		v := 1000.0 * float64(uint(1)<<uint(i))
		if v > rtoMaxMs {
			v = rtoMaxMs
		}
		sum += v
	}

	return time.Duration(sum * float64(time.Millisecond))
}

//nolint:cyclop
func vfRunHandshakeFailure(t *testing.T, spec *vfSpec, res *vfRes) {
	vfRunBubble(t, spec.ID, func(t *testing.T) {
		sim := vfNewSim(t, spec, res)
		gen := &vfScriptRand{fallback: vfNewRand(spec.Seed)}
		globalMathRandomGenerator = gen
		gen.push(spec.A.InitTSN, spec.A.Tag)
		opts := vfOptsFor(&spec.A, sim.net.conns[0], sim.sink, "vfA")
		done := make(chan struct{})
		var cerr error
		var ca *Association
		var retT time.Duration
		switch spec.Kind {
		case "silent", "cookie-silent":
			var p *vfPuppet
			if spec.Kind == "cookie-silent" {
				// answers INIT, never answers COOKIE-ECHO
				p = sim.newPuppet(1, vfPuppetCfg{InitTSN: 5})
				sim.net.onWrite = func(side int, raw []byte) {
					if side == 1 && vfFirstChunkKind(raw) == "COOKIE-ACK" {
						sim.net.freezeDir(1)
					}
				}
			}
			go func() {
				defer close(done)
				co := make([]ClientOption, len(opts))
				for i, o := range opts {
					co[i] = o
				}
				ca, cerr = ClientWithOptions(co...)
				retT = sim.net.now()
			}()
			want := vfExpectedT1(spec.A.RTOMaxMs)
			if vfWaitCh(done, want+30*time.Second) != nil {
				res.violate("C04", "fail/hang/"+spec.Kind, "connect call against a peer that never answers did not return within %v of virtual time", want+30*time.Second)
				kind := "INIT"
				if spec.Kind == "cookie-silent" {
					kind = "COOKIE-ECHO"
				}
				n := 0
				for _, e := range sim.net.events() {
					if e.Kind == vfWrWrite && e.Side == 0 && vfFirstChunkKind(e.Raw) == kind {
						n++
					}
				}
				if n > 9 {
					res.violate("C19", "t1/unbounded/"+spec.Kind, "%d %s packets on the wire and the connect call still has not failed: handshake retransmission is not bounded (limit 1+8)", n, kind)
				}
			} else {
				wantErr := ErrHandshakeInitAck
				rtt := time.Duration(0)
				kind := "INIT"
				if spec.Kind == "cookie-silent" {
					wantErr = ErrHandshakeCookieEcho
					rtt = 2 * time.Duration(sim.net.cfg.DelayUs) * time.Microsecond
					kind = "COOKIE-ECHO"
				}
				if !errors.Is(cerr, wantErr) || ca != nil {
					res.violate("C04", "fail/error/"+spec.Kind, "connect call returned (%v, %v), expected error %v", ca != nil, cerr, wantErr)
				}
				if retT < want+rtt-time.Millisecond || retT > want+rtt+time.Millisecond {
					res.violate("C19", "t1/budget/"+spec.Kind, "connect call failed after %v, expected %v (9 expiries doubling from 1 s, capped at RTO.max=%v ms) + %v", retT, want, spec.A.RTOMaxMs, rtt)
				}
				n := 0
				var last time.Duration
				rmax := spec.A.RTOMaxMs
				if rmax == 0 {
					rmax = 60000
				}
				for _, e := range sim.net.events() {
					if e.Kind == vfWrWrite && e.Side == 0 && vfFirstChunkKind(e.Raw) == kind {
						if n > 0 {
							wantGap := time.Duration(math.Min(1000*float64(uint(1)<<uint(n-1)), rmax)) * time.Millisecond
							res.count("c19_t1_gaps", 1)
							if e.T-last != wantGap {
								res.violate("C19", "t1/gap/"+spec.Kind, "%s retransmission #%d written %v after the previous one, expected %v (RTO.max %v ms)", kind, n, e.T-last, wantGap, rmax)
							}
						}
						last = e.T
						n++
					}
				}
				if n != 9 {
					res.violate("C19", "t1/count/"+spec.Kind, "%d %s packets on the wire, expected 1+8", n, kind)
				}
				res.count("c04_failure_checked", 1)
			}
			// the failed association is not returned to the caller; closing the transport must end it
			_ = sim.net.conns[0].Close()
			<-done
			close(sim.connDone[0])
			if !sim.puppet[1] {
				close(sim.connDone[1])
				_ = sim.net.conns[1].Close()
			} else {
				_ = sim.net.conns[1].Close()
				<-p.done
				close(sim.connDone[1])
			}
		case "server-close":
			go func() {
				defer close(done)
				so := make([]ServerOption, len(opts))
				for i, o := range opts {
					so[i] = o
				}
				ca, cerr = ServerWithOptions(so...)
				retT = sim.net.now()
			}()
			time.Sleep(time.Duration(spec.x("close_after_ms", 100)) * time.Millisecond)
			sim.quiesce()
			closeT := sim.net.now()
			_ = sim.net.conns[0].Close()
			if vfWaitCh(done, time.Second) != nil {
				res.violate("C04", "fail/server-hang", "ServerWithOptions did not return within 1 s after its transport was closed")
			} else {
				if cerr == nil || ca != nil {
					res.violate("C04", "fail/server-error", "ServerWithOptions returned (%v, %v) after its transport was closed", ca != nil, cerr)
				}
				if retT != closeT {
					res.violate("C04", "fail/server-late", "ServerWithOptions returned %v after its transport was closed", retT-closeT)
				}
				res.count("c04_failure_checked", 1)
			}
			<-done
			close(sim.connDone[0])
			close(sim.connDone[1])
			_ = sim.net.conns[1].Close()
		}
		sim.net.stop()
		vfSimByNet.Delete(sim.net)
		sim.closed = true
		sim.finalLeakCheck()
		res.res.Nontrivial = true
		res.res.Sig = fmt.Sprintf("%s|rtomax%v", spec.Kind, spec.A.RTOMaxMs)
		res.res.Sample = map[string]any{"kind": spec.Kind, "rto_max_ms": spec.A.RTOMaxMs, "returned_after": retT.String(), "error": fmt.Sprint(cerr)}
	})
}

func init() { //nolint:gochecknoinits
	vfRegister(&vfProperty{
		id:   "C04",
		list: vfGenHandshakeSpecs,
		run: func(t *testing.T, spec *vfSpec, res *vfRes) {
			if spec.Kind == "hs" {
				vfRunHandshake(t, spec, res)

				return
			}
			vfRunHandshakeFailure(t, spec, res)
		},
	})
}
