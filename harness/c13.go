//go:build verif

package sctp

// C13 — checksum rules. Receive side: corrupted packets (non-zero, wrong
// checksum) have no effect whatsoever; a zero checksum is accepted iff the local
// option is on and the packet does not start with INIT / COOKIE-ECHO. Send
// side: always-on monitor in mon.go; puppet scenarios for other EDMIDs,
// duplicated parameters and one-directional advertisement.

import (
	"encoding/binary"
	"fmt"
	"testing"
	"time"
)

func vfCorrupt(r *vfRand, raw []byte) ([]byte, string) {
	b := make([]byte, len(raw))
	copy(b, raw)
	region := "payload"
	pick := func() int {
		switch r.Intn(6) {
		case 0:
			region = "ports"

			return r.Intn(4)
		case 1:
			region = "vtag"

			return 4 + r.Intn(4)
		case 2:
			region = "checksum"

			return 8 + r.Intn(4)
		case 3:
			region = "chunk-header"
			if len(b) >= 16 {
				return 12 + r.Intn(4)
			}

			return r.Intn(len(b))
		default:
			if len(b) > 16 {
				region = "chunk-value"

				return 16 + r.Intn(len(b)-16)
			}

			return r.Intn(len(b))
		}
	}
	switch r.Intn(3) {
	case 0: // single bit
		i := pick()
		b[i] ^= 1 << uint(r.Intn(8))
	case 1: // two bits
		i := pick()
		b[i] ^= 1 << uint(r.Intn(8))
		j := r.Intn(len(b))
		b[j] ^= 1 << uint(r.Intn(8))
	default: // burst
		i := pick()
		n := 2 + r.Intn(6)
		for k := 0; k < n && i+k < len(b); k++ {
			b[i+k] ^= byte(1 + r.Intn(255))
		}
	}

	return b, region
}

//nolint:gocognit,cyclop
func vfCsumProbes(s *vfSim, res *vfRes) {
	r := vfNewRand(s.spec.Seed ^ 0xc5c5)
	cfgs := [2]*vfSideCfg{&s.spec.A, &s.spec.B}
	nCorrupt := int(s.spec.x("corruptions", 30))
	for side := 0; side < 2; side++ {
		a := s.getAssoc(side)
		if a == nil {
			continue
		}
		corpus := map[string][][]byte{}
		for _, raw := range s.deliveredTo(side) {
			k := vfFirstChunkKind(raw)
			if len(corpus[k]) < 2 {
				corpus[k] = append(corpus[k], raw)
			}
		}
		// a fresh, valid DATA chunk (next expected TSN) as positive control and as the juiciest target
		a.lock.RLock()
		vtag, il, next := a.myVerificationTag, a.useInterleaving, a.peerLastTSN()+1
		a.lock.RUnlock()
		fresh := func(tsn uint32) []byte {
			if il {
				return vfNewPacket(5000, 5000, vtag).chunk(vfCtIData, 3, vfIDataVal(tsn, 900, 0, 53, []byte("fresh-data"))).bytes(true)
			}

			return vfNewPacket(5000, 5000, vtag).chunk(vfCtData, 3, vfDataVal(tsn, 900, 0, 53, []byte("fresh-data"))).bytes(true)
		}
		corpus["fresh"] = [][]byte{fresh(next)}
		for kind, pkts := range corpus {
			for _, raw := range pkts {
				for i := 0; i < nCorrupt; i++ {
					bad, region := vfCorrupt(r, raw)
					if binary.LittleEndian.Uint32(bad[8:]) == 0 {
						continue
					}
					if d := vfDecode(bad); d.CsumOK {
						continue // the corruption happens to be a valid packet (2^-32) or did not change anything
					}
					pr := s.probe(side, bad, true)
					res.count("c13_corrupt_probes", 1)
					res.addSig(fmt.Sprintf("zc%v|%s|%s", cfgs[side].ZC, kind, region))
					if pr.processed || pr.diff != "" || len(pr.replies) > 0 {
						res.violate("C13", "recv/bad-crc-effect/"+kind, "side %d (zero-checksum option %v): a %s packet corrupted in %s with a non-zero wrong checksum was not discarded without effect: processed=%v replies=%d state change: %s", side, cfgs[side].ZC, kind, region, pr.processed, len(pr.replies), pr.diff)

						return
					}
				}
				// zero checksum variant of the intact packet
				if kind == "fresh" {
					continue
				}
				z := make([]byte, len(raw))
				copy(z, raw)
				binary.LittleEndian.PutUint32(z[8:], 0)
				want := cfgs[side].ZC && kind != "INIT" && kind != "COOKIE-ECHO"
				pr := s.probe(side, z, true)
				res.count("c13_zero_probes", 1)
				if pr.processed != want {
					res.violate("C13", fmt.Sprintf("recv/zero-checksum/%s/accepted=%v", kind, pr.processed), "side %d (zero-checksum option %v): a %s packet with checksum field 0 was accepted=%v, expected %v", side, cfgs[side].ZC, kind, pr.processed, want)

					return
				}
				if a.getState() != established {
					return
				}
			}
		}
		// fresh DATA: zero checksum
		a.lock.RLock()
		next = a.peerLastTSN() + 1
		a.lock.RUnlock()
		z := fresh(next)
		binary.LittleEndian.PutUint32(z[8:], 0)
		pr := s.probe(side, z, true)
		res.count("c13_zero_probes", 1)
		if pr.processed != cfgs[side].ZC {
			res.violate("C13", fmt.Sprintf("recv/zero-checksum/DATA/accepted=%v", pr.processed), "side %d (zero-checksum option %v): fresh DATA with checksum field 0 accepted=%v", side, cfgs[side].ZC, pr.processed)
		}
		// positive control: the same fresh DATA with a correct CRC must be processed
		a.lock.RLock()
		next = a.peerLastTSN() + 1
		a.lock.RUnlock()
		pr = s.probe(side, fresh(next), true)
		if !pr.processed {
			res.violate("C13", "recv/control-not-processed", "side %d: a valid fresh DATA packet injected through the same path was not processed (the probe path is broken)", side)
		}
		res.count("c13_controls", 1)
	}
}

func vfGenCsumSpec(idx int, seed uint64) vfSpec {
	r := vfNewRand(vfHash(seed, uint64(idx), 0xC13))
	sp := vfGenPRSpec("C13", idx, seed^0x13)
	sp.ID = fmt.Sprintf("C13-csum-%d", idx)
	sp.Kind = "csum"
	sp.A.ZC = idx&1 != 0
	sp.B.ZC = idx&2 != 0
	sp.Roles = []string{"cs", "cc", "snap"}[(idx/4)%3]
	sp.Link = vfLinkCfg{DelayUs: 10000, LossPm: r.Pick(0, 50)}
	sp.Yield = 0
	for i := range sp.Streams {
		sp.Streams[i].NMsgs = 3 + r.Intn(6)
		sp.Streams[i].GapUs = 0
		sp.Streams[i].Close = r.Intn(3) == 0
	}
	sp.X = map[string]int64{"corruptions": 30}
	if sp.Roles == "cc" && r.Intn(2) == 0 {
		// simultaneous open with the first INIT-ACKs lost: each side retransmits its INIT after it has already seen
		// the peer's INIT (and with it the peer's zero-checksum advertisement)
		for dir := 0; dir < 2; dir++ {
			for nth := 1; nth <= 1+r.Intn(2); nth++ {
				sp.Link.Script = append(sp.Link.Script, vfFault{Dir: dir, Kind: "INIT-ACK", Nth: nth, Act: "drop"})
			}
		}
	}

	return sp
}

func vfGenCsumPuppetSpec(idx int, seed uint64) vfSpec {
	r := vfNewRand(vfHash(seed, uint64(idx), 0xC13F))
	sp := vfSpec{Prop: "C13", Kind: "csum-puppet", ID: fmt.Sprintf("C13-puppet-%d", idx), Seed: r.Uint64()}
	sp.A = vfSideCfg{ZC: r.Intn(2) == 0, InitTSN: r.Uint32(), Tag: r.Uint32() | 1}
	sp.Link = vfLinkCfg{DelayUs: 5000}
	// variant of the peer's advertisement
	sp.X = map[string]int64{"variant": int64(idx % 9), "active": int64((idx / 9) % 2)}

	return sp
}

// puppet variants: what the peer's INIT-ACK says about zero checksum.
func vfRunCsumPuppet(t *testing.T, spec *vfSpec, res *vfRes) {
	vfRunBubble(t, spec.ID, func(t *testing.T) {
		sim := vfNewSim(t, spec, res)
		var extra []byte
		allowed := false
		desc := ""
		switch spec.x("variant", 0) {
		case 0:
			desc = "no parameter"
		case 1:
			extra = vfTLV(0x8001, vfU32(1))
			allowed = true
			desc = "EDMID 1 (DTLS)"
		case 2:
			extra = vfTLV(0x8001, vfU32(2))
			desc = "EDMID 2"
		case 3:
			extra = vfTLV(0x8001, vfU32(0))
			desc = "EDMID 0"
		case 4:
			extra = append(vfTLV(0x8001, vfU32(1)), vfTLV(0x8001, vfU32(7))...)
			desc = "duplicated parameter, last EDMID 7"
		case 5:
			extra = append(vfTLV(0x8001, vfU32(9)), vfTLV(0x8001, vfU32(1))...)
			allowed = true
			desc = "duplicated parameter, last EDMID 1"
		case 6:
			extra = vfTLV(0x8001, vfU32(0x00010001))
			desc = "EDMID 0x00010001"
		case 7:
			extra = vfTLV(0x8001, vfU32(0x80000001))
			desc = "EDMID 0x80000001"
		case 8:
			desc = "no parameter, then a stale INIT with EDMID 1 once established"
		}
		// the advertisement reaches the endpoint in an INIT-ACK (endpoint is the client) or in an INIT (endpoint
		// is the server)
		active := spec.x("active", 0) == 1
		if active {
			desc += " in INIT"
		}
		p, ok := sim.startWithPuppet(vfPuppetCfg{InitTSN: 1000, ExtraParams: extra, AutoAck: true, Active: active})
		if !ok {
			res.violate("C04", "handshake/puppet", "handshake with the packet-level peer failed: %v", sim.connErr[0])
			sim.teardownPuppet(p)

			return
		}
		a := sim.A()
		if spec.x("variant", 0) == 8 {
			// an INIT that has to be ignored (old incarnation of the peer, or off-path: INIT needs no verification
			// tag) is not an advertisement by the peer of this association
			val := vfU32(0x51515151, 1<<20, 0xffffffff, 77)
			val = append(val, vfTLV(0x8008, []byte{vfCtReconfig, vfCtForwardTSN})...)
			val = append(val, vfTLV(0x8001, vfU32(1))...)
			_, _ = p.conn.Write(vfNewPacket(5000, 5000, 0).chunk(vfCtInit, 0, val).bytes(true))
			time.Sleep(100 * time.Millisecond)
		}
		st, err := a.OpenStream(1, PayloadTypeWebRTCBinary)
		if err == nil {
			for i := 0; i < 5; i++ {
				_, _ = st.WriteSCTP(vfMakeMsg(1, i, 100+i*700), PayloadTypeWebRTCBinary)
			}
		}
		a.ActiveHeartbeat()
		time.Sleep(2 * time.Second)
		nZero, nCRC := 0, 0
		for _, d := range p.received() {
			mandatory := d.has(vfCtInit) || d.has(vfCtCookieEcho)
			if d.CsumZero {
				nZero++
				if mandatory || !allowed {
					res.violate("C13", "emit/zero-vs-advert/"+desc, "peer advertised zero-checksum acceptance as '%s' but the endpoint wrote %s with a zero checksum", desc, vfPktSummary(d))
				}
			} else {
				nCRC++
				if !d.CsumOK {
					res.violate("C13", "emit/bad-crc", "endpoint wrote %s with a wrong CRC32c", vfPktSummary(d))
				}
			}
		}
		res.count("c13_puppet_packets", int64(nZero+nCRC))
		res.count("c13_puppet_zero", int64(nZero))
		md, okm := a.Metadata()
		if okm && md.ZeroChecksumSendingEnabled != allowed {
			res.violate("C13", "meta/sending/"+desc, "peer advertised '%s': Metadata().ZeroChecksumSendingEnabled = %v, expected %v", desc, md.ZeroChecksumSendingEnabled, allowed)
		}
		sim.teardownPuppet(p)
		sim.finalLeakCheck()
		res.res.Nontrivial = nZero+nCRC > 3
		res.res.Sig = "puppet|" + desc + fmt.Sprintf("|localzc%v", spec.A.ZC)
		res.res.Sample = map[string]any{"kind": "csum-puppet", "peer_advert": desc, "packets": nZero + nCRC, "zero_checksum_packets": nZero}
	})
}

func init() { //nolint:gochecknoinits
	vfRegister(&vfProperty{
		id: "C13",
		list: func(tier string, seed uint64, race bool) []vfSpec {
			n := vfTierN(tier, 96, 1600)
			np := vfTierN(tier, 24, 240)
			if race {
				n, np = vfTierN(tier, 12, 60), 6
			}
			var out []vfSpec
			for i := 0; i < n; i++ {
				out = append(out, vfGenCsumSpec(i, seed))
			}
			for i := 0; i < np; i++ {
				out = append(out, vfGenCsumPuppetSpec(i, seed))
			}

			return out
		},
		run: func(t *testing.T, spec *vfSpec, res *vfRes) {
			if spec.Kind == "csum-puppet" {
				vfRunCsumPuppet(t, spec, res)

				return
			}
			o := vfXferOpts{mon: vfMonDefault(spec), hsProp: "C04"}
			o.mon.checkAckDelay = false
			o.beforeTeardown = func(s *vfSim, _ *vfWork) { vfCsumProbes(s, res) }
			vfRunTransfer(t, spec, res, o)
			res.res.Nontrivial = res.get("c13_corrupt_probes") > 50
			res.res.Sample = map[string]any{
				"kind": "csum", "zc_a": spec.A.ZC, "zc_b": spec.B.ZC, "roles": spec.Roles, "corrupt_probes": res.get("c13_corrupt_probes"),
				"zero_probes": res.get("c13_zero_probes"), "zero_emitted": res.get("c13_zero_emitted"), "crc_emitted": res.get("c13_crc_emitted"),
			}
		},
	})
}
