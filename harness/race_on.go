//go:build verif && race

package sctp

const vfRaceEnabled = true
