//go:build verif

package sctp

// Workloads with unambiguous histories (DESIGN.md 2.4) and the M-HIST delivery
// checker. Every public call is recorded at the client boundary.

import (
	"errors"
	"fmt"
	"io"
	"sync"
	"sync/atomic"
	"time"
)

// ---------------------------------------------------------------- API history

type vfAPIEv struct {
	CallSeq, RetSeq int64
	CallT, RetT     time.Duration
	Side            int
	Op              string
	SID             uint16
	Inc             int
	Idx             int // message index for writes
	N               int
	PPI             uint32
	Hash            uint64
	Err             error
	Unordered       bool
	RelType         byte
	RelVal          uint32
	Returned        bool
}

func (s *vfSim) apiCall(side int, op string, sid uint16) *vfAPIEv {
	vfProgress.Add(1)
	ev := &vfAPIEv{CallSeq: s.net.seq.Add(1), CallT: s.net.now(), Side: side, Op: op, SID: sid}
	s.apiMu.Lock()
	s.api = append(s.api, ev)
	s.apiMu.Unlock()

	return ev
}

func (s *vfSim) apiRet(ev *vfAPIEv, n int, err error) {
	s.apiMu.Lock()
	ev.RetSeq = s.net.seq.Add(1)
	ev.RetT = s.net.now()
	ev.N = n
	ev.Err = err
	ev.Returned = true
	s.apiMu.Unlock()
}

// ---------------------------------------------------------------- messages

func vfMsgKey(seed uint64, dir int, sid uint16, inc int) uint64 {
	return vfHash(seed, uint64(dir), uint64(sid), uint64(inc), 0x6d7367)
}

// vfMakeMsg builds the idx-th message of a stream: idx in the leading bytes (as
// many as fit) followed by a PRNG stream keyed by (key, idx).
func vfMakeMsg(key uint64, idx int, size int) []byte {
	b := make([]byte, size)
	r := vfNewRand(vfHash(key, uint64(idx)))
	for i := 0; i < size; i += 8 {
		v := r.Uint64()
		for j := 0; j < 8 && i+j < size; j++ {
			b[i+j] = byte(v >> (8 * j))
		}
	}
	hdr := []byte{byte(idx), byte(idx >> 8), byte(idx >> 16), byte(key), byte(key >> 8)}
	copy(b, hdr)

	return b
}

func vfMsgHash(ppi uint32, b []byte) uint64 {
	return vfHash(vfHashBytes(b), uint64(ppi), uint64(len(b)))
}

var vfPPIs = []uint32{0, 51, 53, 56, 57, 0xdeadbeef, 1, 0xffffffff} //nolint:gochecknoglobals

func vfPickSize(mode string, r *vfRand, maxPayload, maxMsg int) int {
	boundary := []int{
		1, 2, 3, 4, 5, 7, 8, maxPayload - 1, maxPayload, maxPayload + 1, 2*maxPayload - 1, 2 * maxPayload, 2*maxPayload + 1,
		3*maxPayload + 17, 10 * maxPayload,
	}
	clamp := func(n int) int {
		if n < 1 {
			n = 1
		}
		if n > maxMsg {
			n = maxMsg
		}

		return n
	}
	switch mode {
	case "one":
		return 1
	case "q256":
		return clamp(256)
	case "tiny":
		return clamp(1 + r.Intn(8))
	case "small":
		return clamp(1 + r.Intn(maxPayload))
	case "boundary":
		return clamp(boundary[r.Intn(len(boundary))])
	case "big":
		return clamp(maxPayload + r.Intn(8*maxPayload))
	case "max":
		if r.Intn(3) == 0 {
			return clamp(maxMsg - r.Intn(3))
		}

		return clamp(maxMsg/2 + r.Intn(maxMsg/2+1))
	default: // mixed
		switch r.Intn(10) {
		case 0, 1, 2:
			return clamp(boundary[r.Intn(len(boundary))])
		case 3:
			return clamp(maxMsg - r.Intn(2))
		case 4, 5:
			return clamp(maxPayload + r.Intn(6*maxPayload))
		default:
			return clamp(1 + r.Intn(2*maxPayload))
		}
	}
}

// ---------------------------------------------------------------- stream runs

type vfWriteRec struct {
	Idx       int
	Size      int
	PPI       uint32
	Hash      uint64
	Accepted  bool
	Err       error
	CallT     time.Duration
	RetT      time.Duration
	CallSeq   int64
	RetSeq    int64
	Unordered bool
	RelType   byte
	RelVal    uint32
	DCEP      bool
	NoOrder   bool // written by another goroutine than the run's writer: position relative to the others is undefined
}

type vfReadRec struct {
	N    int
	PPI  uint32
	Hash uint64
	Err  error
	T    time.Duration
	Seq  int64
	Head [5]byte
}

type vfStreamRun struct {
	cfg   vfStreamCfg
	inc   int
	key   uint64
	wside int

	mu      sync.Mutex
	writes  []vfWriteRec
	reads   []vfReadRec
	readEnd error
	nRead   atomic.Int64
	nWrit   atomic.Int64
	wDone   chan struct{}
	rDone   chan struct{}
	wStream *Stream
	rStream *Stream
	resume  chan struct{} // for paused readers
	shortReads int64
}

type vfWork struct {
	sim     *vfSim
	runs    []*vfStreamRun
	runsMu  sync.Mutex
	reg     [2]*vfStreamReg
	accDone [2]chan struct{}
	maxBuf  int
	drainBuf []byte
}

type vfStreamReg struct {
	mu      sync.Mutex
	streams map[uint16]*Stream
	waiters map[uint16]chan struct{}
	nAccept int
}

func vfNewStreamReg() *vfStreamReg {
	return &vfStreamReg{streams: map[uint16]*Stream{}, waiters: map[uint16]chan struct{}{}}
}

func (r *vfStreamReg) put(sid uint16, s *Stream) {
	r.mu.Lock()
	r.streams[sid] = s
	if ch, ok := r.waiters[sid]; ok {
		close(ch)
		delete(r.waiters, sid)
	}
	r.mu.Unlock()
}

func (r *vfStreamReg) forget(sid uint16) {
	r.mu.Lock()
	delete(r.streams, sid)
	r.mu.Unlock()
}

func (r *vfStreamReg) get(sid uint16) (*Stream, chan struct{}) {
	r.mu.Lock()
	defer r.mu.Unlock()
	if s, ok := r.streams[sid]; ok {
		return s, nil
	}
	ch, ok := r.waiters[sid]
	if !ok {
		ch = make(chan struct{})
		r.waiters[sid] = ch
	}

	return nil, ch
}

func (r *vfStreamReg) wait(sid uint16, stop <-chan struct{}) *Stream {
	for {
		s, ch := r.get(sid)
		if s != nil {
			return s
		}
		select {
		case <-ch:
		case <-stop:
			return nil
		}
	}
}

func (s *vfSim) newWork() *vfWork {
	w := &vfWork{sim: s, maxBuf: 1 << 20}
	w.reg[0], w.reg[1] = vfNewStreamReg(), vfNewStreamReg()
	w.accDone[0], w.accDone[1] = make(chan struct{}), make(chan struct{})
	for side := 0; side < 2; side++ {
		side := side
		go func() {
			defer close(w.accDone[side])
			a := s.getAssoc(side)
			for {
				ev := s.apiCall(side, "accept", 0)
				st, err := a.AcceptStream()
				s.apiRet(ev, 0, err)
				if err != nil {
					return
				}
				ev.SID = st.StreamIdentifier()
				w.reg[side].mu.Lock()
				w.reg[side].nAccept++
				w.reg[side].mu.Unlock()
				w.reg[side].put(st.StreamIdentifier(), st)
			}
		}()
	}

	return w
}

// newWorkNoAccept: a workload whose streams are opened explicitly on both sides (no AcceptStream loop).
func (s *vfSim) newWorkNoAccept() *vfWork {
	w := &vfWork{sim: s, maxBuf: 1 << 20}
	w.reg[0], w.reg[1] = vfNewStreamReg(), vfNewStreamReg()
	w.accDone[0], w.accDone[1] = make(chan struct{}), make(chan struct{})
	close(w.accDone[0])
	close(w.accDone[1])

	return w
}

// addStreamWith registers the stream objects returned by get(side) on both sides, then starts the run.
func (w *vfWork) addStreamWith(cfg vfStreamCfg, inc int, get func(side int) *Stream) *vfStreamRun {
	for side := 0; side < 2; side++ {
		if st := get(side); st != nil {
			w.reg[side].put(cfg.SID, st)
		}
	}

	return w.addStream(cfg, inc)
}

// addStream starts writer and reader goroutines for one (direction, stream,
// incarnation).
func (w *vfWork) addStream(cfg vfStreamCfg, inc int) *vfStreamRun {
	s := w.sim
	run := &vfStreamRun{
		cfg: cfg, inc: inc, key: vfMsgKey(s.spec.Seed, cfg.Dir, cfg.SID, inc), wside: cfg.Dir,
		wDone: make(chan struct{}), rDone: make(chan struct{}), resume: make(chan struct{}),
	}
	w.runsMu.Lock()
	w.runs = append(w.runs, run)
	w.runsMu.Unlock()
	if s.spec.Link.Lockstep && s.spec.x("lockstep_app", 0) == 1 {
		w.writer(run) // only registers scheduled events
		close(run.rDone)
		if s.net.afterSettle == nil {
			s.net.afterSettle = w.drainReads
		}
	} else {
		go w.writer(run)
		go w.reader(run)
	}

	return run
}

// allRuns returns a snapshot of the registered runs (runs are added while readers and writers already execute).
func (w *vfWork) allRuns() []*vfStreamRun {
	w.runsMu.Lock()
	defer w.runsMu.Unlock()

	return append([]*vfStreamRun(nil), w.runs...)
}

func (w *vfWork) stopCh() <-chan struct{} { return w.sim.net.pumpDone }

func (w *vfWork) openOrWait(side int, sid uint16, opener bool) *Stream {
	if st, _ := w.reg[side].get(sid); st != nil {
		return st
	}
	if opener {
		a := w.sim.getAssoc(side)
		ev := w.sim.apiCall(side, "open", sid)
		st, err := a.OpenStream(sid, PayloadTypeWebRTCBinary)
		w.sim.apiRet(ev, 0, err)
		if err != nil {
			return nil
		}
		w.reg[side].put(sid, st)

		return st
	}

	return w.reg[side].wait(sid, w.stopCh())
}

// openAfter waits up to d for the stream to be accepted, then opens it locally (both ends of a
// WebRTC data channel know the identifier and may call OpenStream).
func (w *vfWork) openAfter(side int, sid uint16, d time.Duration) *Stream {
	st, ch := w.reg[side].get(sid)
	if st != nil {
		return st
	}
	t := time.NewTimer(d)
	select {
	case <-ch:
		t.Stop()
	case <-t.C:
	case <-w.stopCh():
		t.Stop()

		return nil
	}

	return w.openOrWait(side, sid, true)
}

// who opens stream sid: the side that writes first on it. If both directions
// are configured on the same sid, direction 0's writer (side A) opens.
func (w *vfWork) opener(sid uint16) int {
	// the scenario's static stream list first: the answer must not depend on how many runs were registered so far
	for _, sc := range w.sim.spec.Streams {
		if sc.SID == sid && sc.Dir == 0 {
			return 0
		}
	}
	for _, r := range w.allRuns() {
		if r.cfg.SID == sid && r.cfg.Dir == 0 {
			return 0
		}
	}

	return 1
}

// lockstepWriter issues the run's writes as scheduled events of the lock-step link driver, so that the
// order of application actions relative to packet deliveries is a pure function of the scenario.
func (w *vfWork) lockstepWriter(run *vfStreamRun) {
	s := w.sim
	side := run.wside
	a := s.getAssoc(side)
	st, _ := w.reg[side].get(run.cfg.SID)
	if st == nil {
		var err error
		st, err = a.OpenStream(run.cfg.SID, PayloadTypeWebRTCBinary)
		if err != nil {
			close(run.wDone)

			return
		}
		w.reg[side].put(run.cfg.SID, st)
	}
	run.mu.Lock()
	run.wStream = st
	run.mu.Unlock()
	st.SetReliabilityParams(run.cfg.Unordered, run.cfg.RelType, run.cfg.RelVal)
	rnd := vfNewRand(vfHash(run.key, 0x77))
	maxPayload := int(a.maxPayloadSize)
	maxMsg := int(a.MaxMessageSize())
	gap := time.Duration(run.cfg.GapUs) * time.Microsecond
	if gap <= 0 {
		gap = 200 * time.Microsecond
	}
	at := s.net.now() + time.Millisecond + time.Duration(run.cfg.SID)*time.Microsecond + time.Duration(run.cfg.Dir)*500*time.Nanosecond
	for i := 0; i < run.cfg.NMsgs; i++ {
		i := i
		size := vfPickSize(run.cfg.SizeMode, rnd, maxPayload, maxMsg)
		ppi := vfPPIs[rnd.Intn(len(vfPPIs))]
		dcep := run.cfg.DCEPEvery > 0 && i%run.cfg.DCEPEvery == run.cfg.DCEPEvery-1
		if dcep {
			ppi = 50
		}
		last := i == run.cfg.NMsgs-1
		s.net.schedule(at, func() {
			msg := vfMakeMsg(run.key, i, size)
			rec := vfWriteRec{Idx: i, Size: size, PPI: ppi, Hash: vfMsgHash(ppi, msg), Unordered: run.cfg.Unordered, RelType: run.cfg.RelType, RelVal: run.cfg.RelVal, DCEP: dcep}
			rec.CallT = s.net.now()
			_, err := st.WriteSCTP(msg, PayloadProtocolIdentifier(ppi))
			rec.RetT = s.net.now()
			rec.Err, rec.Accepted = err, err == nil
			run.mu.Lock()
			run.writes = append(run.writes, rec)
			run.mu.Unlock()
			if err == nil {
				run.nWrit.Add(1)
			}
			if last {
				if run.cfg.Close {
					_ = st.Close()
				}
				close(run.wDone)
			}
		})
		at += gap
	}
	if run.cfg.NMsgs == 0 {
		close(run.wDone)
	}
}

func (w *vfWork) writer(run *vfStreamRun) {
	if w.sim.spec.Link.Lockstep && w.sim.spec.x("lockstep_app", 0) == 1 {
		w.lockstepWriter(run)

		return
	}
	defer close(run.wDone)
	s := w.sim
	side := run.wside
	a := s.getAssoc(side)
	var st *Stream
	if w.opener(run.cfg.SID) == side {
		st = w.openOrWait(side, run.cfg.SID, true)
	} else {
		st = w.openAfter(side, run.cfg.SID, 2*time.Second)
	}
	if st == nil {
		return
	}
	run.mu.Lock()
	run.wStream = st
	run.mu.Unlock()
	st.SetReliabilityParams(run.cfg.Unordered, run.cfg.RelType, run.cfg.RelVal)
	rnd := vfNewRand(vfHash(run.key, 0x77))
	maxPayload := int(a.maxPayloadSize)
	maxMsg := int(a.MaxMessageSize())
	for i := 0; i < run.cfg.NMsgs; i++ {
		size := vfPickSize(run.cfg.SizeMode, rnd, maxPayload, maxMsg)
		ppi := vfPPIs[rnd.Intn(len(vfPPIs))]
		if run.cfg.PPIMode == "bin" {
			ppi = 53
		}
		dcep := run.cfg.DCEPEvery > 0 && i%run.cfg.DCEPEvery == run.cfg.DCEPEvery-1
		if dcep {
			ppi = 50
		}
		msg := vfMakeMsg(run.key, i, size)
		unord, relT, relV := run.cfg.Unordered, run.cfg.RelType, run.cfg.RelVal
		if run.cfg.Mix {
			// ordered and unordered messages share the stream; the reliability policy stays the stream's
			// (it is evaluated at transmission time, so it is a property of the stream, not of a message)
			unord = rnd.Intn(2) == 0
			st.SetReliabilityParams(unord, relT, relV)
		}
		rec := vfWriteRec{
			Idx: i, Size: size, PPI: ppi, Hash: vfMsgHash(ppi, msg), Unordered: unord,
			RelType: relT, RelVal: relV, DCEP: dcep,
		}
		ev := s.apiCall(side, "write", run.cfg.SID)
		ev.Idx, ev.PPI, ev.Hash, ev.N = i, ppi, rec.Hash, size
		rec.CallT, rec.CallSeq = ev.CallT, ev.CallSeq
		n, err := st.WriteSCTP(msg, PayloadProtocolIdentifier(ppi))
		s.apiRet(ev, n, err)
		rec.RetT, rec.RetSeq = ev.RetT, ev.RetSeq
		rec.Err = err
		rec.Accepted = err == nil
		if err == nil && n != size {
			s.res.violate("C18", "write/short-count", "WriteSCTP returned n=%d for a %d-byte message without error", n, size)
		}
		run.mu.Lock()
		run.writes = append(run.writes, rec)
		run.mu.Unlock()
		if err == nil {
			run.nWrit.Add(1)
		}
		if err != nil {
			// association closed / shutting down: stop writing
			if errors.Is(err, ErrStreamClosed) || errors.Is(err, ErrPayloadDataStateNotExist) {
				return
			}
		}
		if run.cfg.GapUs > 0 {
			time.Sleep(time.Duration(run.cfg.GapUs) * time.Microsecond)
		} else if run.cfg.GapUs < 0 {
			// random gap up to |GapUs|
			time.Sleep(time.Duration(rnd.Intn(int(-run.cfg.GapUs))) * time.Microsecond)
		}
	}
	if run.cfg.Close {
		ev := s.apiCall(side, "sclose", run.cfg.SID)
		err := st.Close()
		s.apiRet(ev, 0, err)
	}
}

func (w *vfWork) reader(run *vfStreamRun) {
	defer close(run.rDone)
	s := w.sim
	side := 1 - run.wside
	st := w.openOrWait(side, run.cfg.SID, w.opener(run.cfg.SID) == side)
	if st == nil {
		return
	}
	run.mu.Lock()
	run.rStream = st
	run.mu.Unlock()
	if run.cfg.RecvCfg {
		// only when this side does not itself write on the stream (the parameters describe sending)
		shared := false
		for _, o := range w.allRuns() {
			if o.cfg.SID == run.cfg.SID && o.wside == side {
				shared = true
			}
		}
		if !shared {
			st.SetReliabilityParams(run.cfg.Unordered, run.cfg.RelType, run.cfg.RelVal)
		}
	}
	buf := make([]byte, w.maxBuf)
	rnd := vfNewRand(vfHash(run.key, 0x99))
	mode := run.cfg.Reader
	if mode == "pause" {
		select {
		case <-run.resume:
		case <-w.stopCh():
			return
		}
	}
	for {
		if mode == "slow" {
			time.Sleep(time.Duration(1+rnd.Intn(30)) * time.Millisecond)
		}
		if mode == "short" && rnd.Intn(3) == 0 {
			small := make([]byte, 1+rnd.Intn(64))
			ev := s.apiCall(side, "read", run.cfg.SID)
			n, ppi, err := st.ReadSCTP(small)
			s.apiRet(ev, n, err)
			if err == nil {
				w.recordRead(run, small[:n], uint32(ppi), n, nil)

				continue
			}
			if !errors.Is(err, io.ErrShortBuffer) {
				w.recordRead(run, nil, 0, 0, err)

				return
			}
			atomic.AddInt64(&run.shortReads, 1)
			s.res.seen("short-read")
			if n <= len(small) {
				s.res.violate("C18", "read/short-n", "ReadSCTP returned ErrShortBuffer with n=%d for a %d-byte buffer", n, len(small))
			}
		}
		ev := s.apiCall(side, "read", run.cfg.SID)
		n, ppi, err := st.ReadSCTP(buf)
		s.apiRet(ev, n, err)
		if err != nil {
			w.recordRead(run, nil, 0, 0, err)

			return
		}
		w.recordRead(run, buf[:n], uint32(ppi), n, nil)
	}
}

func (w *vfWork) recordRead(run *vfStreamRun, b []byte, ppi uint32, n int, err error) {
	rec := vfReadRec{N: n, PPI: ppi, Err: err, T: w.sim.net.now(), Seq: w.sim.net.seq.Add(1)}
	if err == nil {
		rec.Hash = vfMsgHash(ppi, b)
		copy(rec.Head[:], b)
		run.nRead.Add(1)
	}
	run.mu.Lock()
	if err != nil {
		run.readEnd = err
	} else {
		run.reads = append(run.reads, rec)
	}
	run.mu.Unlock()
}

func (w *vfWork) waitWriters(limit time.Duration) bool {
	t := time.NewTimer(limit)
	defer t.Stop()
	for _, r := range w.allRuns() {
		select {
		case <-r.wDone:
		case <-t.C:
			return false
		}
	}

	return true
}

// allReliableDelivered: every accepted write of every fully reliable run has
// been read.
func (w *vfWork) allReliableDelivered() bool {
	for _, r := range w.allRuns() {
		if r.cfg.RelType != ReliabilityTypeReliable {
			continue
		}
		if r.nRead.Load() < r.nWrit.Load() {
			return false
		}
	}

	return true
}

func (w *vfWork) buffered() (int, uint64) {
	tot := 0
	var st uint64
	for side := 0; side < 2; side++ {
		if a := w.sim.getAssoc(side); a != nil {
			tot += a.BufferedAmount()
		}
	}
	for _, r := range w.allRuns() {
		r.mu.Lock()
		ws := r.wStream
		r.mu.Unlock()
		if ws != nil && !vfStreamDetached(w.sim.getAssoc(r.wside), ws) {
			st += ws.BufferedAmount()
		}
	}

	return tot, st
}

// waitDrained polls in virtual time until all reliable data is read and every
// buffered amount is zero, or the limit passes.
func (w *vfWork) waitDrained(limit time.Duration) bool {
	deadline := w.sim.net.now() + limit
	step := 5 * time.Millisecond
	for w.sim.net.now() < deadline {
		if w.allReliableDelivered() {
			w.sim.quiesce()
			if a, b := w.buffered(); a == 0 && b == 0 && w.allReliableDelivered() && w.readersIdle() {
				return true
			}
		}
		time.Sleep(step)
		if step < 200*time.Millisecond {
			step += step / 4
		}
	}

	return false
}

// drainReads (lock-step application mode): read everything that is readable on every stream, in a fixed
// order, without ever blocking. Runs on the link driver after each settle.
func (w *vfWork) drainReads() {
	if w.drainBuf == nil {
		w.drainBuf = make([]byte, w.maxBuf)
	}
	buf := w.drainBuf
	for _, run := range w.allRuns() {
		run.mu.Lock()
		rs := run.rStream
		ended := run.readEnd != nil
		run.mu.Unlock()
		if rs == nil {
			st, _ := w.reg[1-run.wside].get(run.cfg.SID)
			if st == nil {
				continue
			}
			run.mu.Lock()
			run.rStream = st
			run.mu.Unlock()
			rs = st
		}
		if ended {
			continue
		}
		for {
			rs.lock.RLock()
			readable := rs.reassemblyQueue.isReadable()
			rerr := rs.readErr
			rs.lock.RUnlock()
			if !readable {
				if rerr != nil {
					w.recordRead(run, nil, 0, 0, rerr)
				}

				break
			}
			n, ppi, err := rs.ReadSCTP(buf)
			if err != nil {
				w.recordRead(run, nil, 0, 0, err)

				break
			}
			w.recordRead(run, buf[:n], uint32(ppi), n, nil)
		}
	}
}

// readersIdle: no stream holds a complete, readable message that its reader has not fetched yet.
func (w *vfWork) readersIdle() bool {
	for _, r := range w.allRuns() {
		r.mu.Lock()
		rs := r.rStream
		r.mu.Unlock()
		if rs == nil {
			continue
		}
		rs.lock.RLock()
		readable := rs.reassemblyQueue.isReadable()
		rs.lock.RUnlock()
		if readable {
			return false
		}
	}

	return true
}

func (w *vfWork) resumeReaders() {
	for _, r := range w.allRuns() {
		select {
		case <-r.resume:
		default:
			close(r.resume)
		}
	}
}

func (w *vfWork) waitReaders(limit time.Duration) bool {
	t := time.NewTimer(limit)
	defer t.Stop()
	for _, r := range w.allRuns() {
		select {
		case <-r.rDone:
		case <-t.C:
			return false
		}
	}

	return true
}

// ---------------------------------------------------------------- M-HIST

type vfDeliveryStats struct {
	Written, Accepted, Delivered, Missing, Rejected int
}

// vfCheckDelivery is the M-HIST oracle for one (direction, stream, incarnation).
// policy: "ordered-reliable" | "ordered" | "unordered-reliable" | "unordered".
// final=true means the run is over and reliable messages must all be there.
//
//nolint:gocognit,cyclop
func vfCheckDelivery(res *vfRes, prop string, run *vfStreamRun, final bool) vfDeliveryStats {
	run.mu.Lock()
	writes := append([]vfWriteRec(nil), run.writes...)
	reads := append([]vfReadRec(nil), run.reads...)
	run.mu.Unlock()
	var st vfDeliveryStats
	tag := fmt.Sprintf("dir%d/sid%d/inc%d", run.cfg.Dir, run.cfg.SID, run.inc)

	byHash := map[uint64][]int{}
	rejected := map[uint64]int{}
	for i, wr := range writes {
		st.Written++
		if wr.Accepted {
			st.Accepted++
			byHash[wr.Hash] = append(byHash[wr.Hash], i)
		} else {
			st.Rejected++
			rejected[wr.Hash] = i
		}
	}
	delivered := make([]int, len(writes))
	lastOrderedIdx := -1
	lastDCEPIdx := -1
	reliable := run.cfg.RelType == ReliabilityTypeReliable
	pos := 0 // next expected write index for ordered-reliable
	for ri, rd := range reads {
		cands := byHash[rd.Hash]
		idx := -1
		// Tiny messages of one stream can have identical bytes (a 1-byte message carries idx mod 256). If
		// the read can be explained by an undelivered write that keeps the ordered sequence intact, that
		// explanation is taken; only if there is none the earliest undelivered candidate is charged.
		for _, c := range cands {
			if delivered[c] == 0 && (writes[c].Unordered && !writes[c].DCEP || writes[c].NoOrder || c > lastOrderedIdx) {
				idx = c

				break
			}
		}
		if idx < 0 {
			for _, c := range cands {
				if delivered[c] == 0 {
					idx = c

					break
				}
			}
		}
		if idx < 0 {
			if len(cands) > 0 {
				res.violate(prop, "deliver/duplicate", "%s: read #%d returned message idx=%d (len %d) a second time", tag, ri, cands[0], rd.N)

				continue
			}
			if wi, ok := rejected[rd.Hash]; ok {
				res.violate("C18", "deliver/rejected-write", "%s: read #%d returned the payload of rejected write idx=%d (err %v)", tag, ri, wi, writes[wi].Err)

				continue
			}
			res.violate(prop, "deliver/unknown", "%s: read #%d returned %d bytes (ppi %d, head %x) that match no written message (altered, truncated, merged or spliced)", tag, ri, rd.N, rd.PPI, rd.Head)

			continue
		}
		delivered[idx]++
		st.Delivered++
		wr := writes[idx]
		if wr.NoOrder {
			continue
		}
		// DCEP messages are always ordered+reliable relative to each other
		if wr.DCEP {
			if idx < lastDCEPIdx {
				res.violate("C06", "dcep/reordered", "%s: DCEP message idx=%d delivered after DCEP idx=%d", tag, idx, lastDCEPIdx)
			}
			lastDCEPIdx = idx
		}
		ordered := !wr.Unordered || wr.DCEP
		if ordered {
			if idx < lastOrderedIdx {
				res.violate(prop, "deliver/reordered", "%s: read #%d returned ordered message idx=%d after idx=%d", tag, ri, idx, lastOrderedIdx)
			}
			lastOrderedIdx = idx
		}
		if reliable && !run.cfg.Unordered && !run.cfg.Mix {
			// skip rejected writes and writes whose position is undefined
			for pos < len(writes) && (!writes[pos].Accepted || writes[pos].NoOrder) {
				pos++
			}
			if idx != pos {
				res.violate(prop, "deliver/not-next", "%s: read #%d returned message idx=%d but the next accepted write is idx=%d (loss or reordering)", tag, ri, idx, pos)
				if idx > pos {
					pos = idx
				}
			}
			pos++
		}
	}
	for i, wr := range writes {
		if wr.Accepted && delivered[i] == 0 {
			st.Missing++
		}
	}
	if final {
		for i, wr := range writes {
			if !wr.Accepted || delivered[i] > 0 {
				continue
			}
			if reliable || wr.DCEP || wr.RelType == ReliabilityTypeReliable {
				// loss evidence: a later message of the same stream was delivered (ordered), or run is final
				key := "deliver/missing"
				p := prop
				if wr.DCEP && !reliable {
					key = "dcep/missing"
					p = "C06"
				}
				res.violate(p, key, "%s: accepted message idx=%d (len %d, ppi %d) was never delivered (%d of %d delivered)", tag, i, wr.Size, wr.PPI, st.Delivered, st.Accepted)

				break
			}
		}
	}

	return st
}

func vfIsEOF(err error) bool { return errors.Is(err, io.EOF) }
