//go:build verif

package sctp

// C15 — buffered-amount accounting is exact and the low-threshold callback fires.

import (
	"fmt"
	"sync"
	"sync/atomic"
	"testing"
	"time"
)

type vfBAState struct {
	mu        sync.Mutex
	nextEv    int
	tx        [2]map[uint32][2]int // side -> TSN -> (sid, len)
	acked     [2]map[uint32]bool
	cum       [2]uint32
	haveCum   [2]bool
	initTSN   [2]uint32
	ackedSID  [2]map[uint16]int64 // bytes acknowledged per stream
	ackPkts   [2]int64            // packets carrying an acknowledgement delivered to side
	cb        map[*vfStreamRun]*atomic.Int64
	lastAbove map[*vfStreamRun]bool
	lastCb    map[*vfStreamRun]int64
	th        map[*vfStreamRun]uint64
}

func (b *vfBAState) applyCum(side int, cum uint32) {
	base := b.initTSN[side] - 1
	if b.haveCum[side] {
		base = b.cum[side]
	}
	if !sna32GT(cum, base) || cum-base > 1<<20 {
		return
	}
	for t := base + 1; sna32LTE(t, cum); t++ {
		if v, ok := b.tx[side][t]; ok && !b.acked[side][t] {
			b.acked[side][t] = true
			b.ackedSID[side][uint16(v[0])] += int64(v[1]) //nolint:gosec
		}
	}
	b.cum[side], b.haveCum[side] = cum, true
}

// advance consumes the wire events recorded since the last call.
func (b *vfBAState) advance(sim *vfSim) {
	evs := sim.net.events()
	for ; b.nextEv < len(evs); b.nextEv++ {
		e := evs[b.nextEv]
		if e.Pkt == nil {
			e.Pkt = vfDecode(e.Raw)
		}
		switch e.Kind {
		case vfWrWrite:
			for i := range e.Pkt.Chunks {
				c := &e.Pkt.Chunks[i]
				if c.isData() {
					if _, seen := b.tx[e.Side][c.TSN]; !seen {
						b.tx[e.Side][c.TSN] = [2]int{int(c.SID), len(c.Data)}
					}
				}
			}
		case vfWrDeliver:
			side := e.Side
			if !e.Pkt.CsumOK && !e.Pkt.CsumZero {
				continue
			}
			for i := range e.Pkt.Chunks {
				c := &e.Pkt.Chunks[i]
				switch c.Type {
				case vfCtSack:
					b.ackPkts[side]++
					if b.haveCum[side] && sna32LT(c.CumTSN, b.cum[side]) {
						continue
					}
					b.applyCum(side, c.CumTSN)
					for _, g := range c.Gaps {
						for o := uint32(g[0]); o <= uint32(g[1]); o++ {
							t := c.CumTSN + o
							if v, ok := b.tx[side][t]; ok && !b.acked[side][t] {
								b.acked[side][t] = true
								b.ackedSID[side][uint16(v[0])] += int64(v[1]) //nolint:gosec
							}
						}
					}
				case vfCtShutdown:
					b.ackPkts[side]++
					b.applyCum(side, c.CumTSN)
				}
			}
		}
	}
}

//nolint:gocognit,cyclop
func vfBASample(sim *vfSim, w *vfWork, b *vfBAState, final bool) {
	res := sim.res
	sim.quiesce()
	b.mu.Lock()
	defer b.mu.Unlock()
	b.advance(sim)
	var sumStreams [2]int64
	inProgress := [2]int64{}
	for _, run := range w.allRuns() {
		run.mu.Lock()
		ws := run.wStream
		var accepted int64
		for _, wr := range run.writes {
			if wr.Accepted {
				accepted += int64(wr.Size)
			}
		}
		run.mu.Unlock()
		if ws == nil {
			continue
		}
		side := run.wside
		a := sim.getAssoc(side)
		if vfStreamDetached(a, ws) {
			continue
		}
		// a write that has been called but has not returned yet may or may not be counted
		var open, openKnown int64
		sim.apiMu.Lock()
		for _, ev := range sim.api {
			if ev.Op == "write" && ev.Side == side && ev.SID == run.cfg.SID && !ev.Returned {
				open += int64(ev.N)
				openKnown += int64(ev.N)
				if ev.N == 0 {
					open += int64(a.MaxMessageSize())
				}
			}
		}
		sim.apiMu.Unlock()
		extra := int64(0)
		if cbw := b.cb[run]; cbw != nil {
			_ = cbw
		}
		want := accepted - b.ackedSID[side][run.cfg.SID] + extra
		got := int64(ws.BufferedAmount()) //nolint:gosec
		res.count("c15_stream_samples", 1)
		if got < want || got > want+open {
			res.violate("C15", "stream/mismatch", "dir %d stream %d at %v: BufferedAmount() = %d, accepted writes %d - acknowledged %d = %d (write in progress: up to %d)", run.cfg.Dir, run.cfg.SID, sim.net.now(), got, accepted, b.ackedSID[side][run.cfg.SID], want, open)
		}
		sumStreams[side] += got
		inProgress[side] += open
		// low-threshold callback
		if cnt := b.cb[run]; cnt != nil {
			th := b.th[run]
			above := uint64(got) > th //nolint:gosec
			c := cnt.Load()
			if b.lastAbove[run] && !above && c <= b.lastCb[run] {
				res.violate("C15", "callback/missed", "dir %d stream %d: buffered amount went from above the threshold %d down to %d between two quiescent points but OnBufferedAmountLow was not invoked (count %d)", run.cfg.Dir, run.cfg.SID, th, got, c)
			}
			if b.lastAbove[run] && !above {
				res.seen("threshold-crossed")
				res.count("c15_crossings", 1)
			}
			if c > b.ackPkts[side] {
				res.violate("C15", "callback/spurious", "dir %d stream %d: OnBufferedAmountLow invoked %d times but only %d acknowledgements were delivered", run.cfg.Dir, run.cfg.SID, c, b.ackPkts[side])
			}
			b.lastAbove[run], b.lastCb[run] = above, c
		}
	}
	for side := 0; side < 2; side++ {
		a := sim.getAssoc(side)
		if a == nil {
			continue
		}
		ab := int64(a.BufferedAmount())
		a.lock.RLock()
		pb, _, walked := vfWalkPending(a.pendingQueue)
		ib := 0
		for i := 0; i < a.inflightQueue.size(); i++ {
			ib += len(a.inflightQueue.chunks.At(i).userData)
		}
		detached := int64(0)
		a.lock.RUnlock()
		for _, run := range w.allRuns() {
			run.mu.Lock()
			ws := run.wStream
			run.mu.Unlock()
			if ws != nil && run.wside == side && vfStreamDetached(a, ws) {
				detached++
			}
		}
		res.count("c15_assoc_samples", 1)
		if walked && ab != int64(pb+ib) {
			res.violate("C15", "assoc/recount", "side %d: Association.BufferedAmount() = %d but pending %d + in-flight %d user bytes are queued", side, ab, pb, ib)
		}
		if detached == 0 && (ab > sumStreams[side] || ab < sumStreams[side]-inProgress[side]) {
			res.violate("C15", "assoc/sum", "side %d at %v: Association.BufferedAmount() = %d but the streams report %d in total (writes in progress %d)", side, sim.net.now(), ab, sumStreams[side], inProgress[side])
		}
	}
	_ = final
}

func vfGenBASpec(idx int, seed uint64) vfSpec {
	r := vfNewRand(vfHash(seed, uint64(idx), 0xC15))
	var sp vfSpec
	if idx%3 == 0 {
		sp = vfGenPRSpec("C15", idx, seed^0x15)
	} else {
		sp = vfGenTransferSpec("C15", idx, seed^0x15, 1, 80)
	}
	sp.ID = fmt.Sprintf("C15-ba-%d", idx)
	sp.Kind = "buffered"
	if sp.X == nil {
		sp.X = map[string]int64{}
	}
	sp.X["th_class"] = int64(idx % 3) // 0: zero, 1: mid-range, 2: above the largest burst
	sp.X["reenter_write"] = int64(r.Intn(2))
	if r.Intn(4) == 0 {
		sp.A.BlockWrite = true
		sp.X["reenter_write"] = 0
	}
	sp.Yield = r.Pick(0, 0, 100, 400)
	sp.X["yield_nosleep"] = 1
	// some streams are closed by their writer (and closed back by the reader) while the others keep going:
	// acknowledgements then cover streams that were already unregistered together with live ones
	if idx%3 != 0 && r.Intn(2) == 0 {
		for i := range sp.Streams {
			if r.Intn(2) == 0 {
				sp.Streams[i].Close = true
				if sp.Streams[i].NMsgs > 12 {
					sp.Streams[i].NMsgs = 3 + r.Intn(10)
				}
			}
		}
	}
	// gap-ack followed by cumulative ack of the same TSNs: reordering + loss
	if r.Intn(2) == 0 {
		sp.Link.JitterUs = sp.Link.DelayUs * int64(r.Pick(1, 3))
		if sp.Link.LossPm == 0 {
			sp.Link.LossPm = r.Pick(20, 80)
		}
	}

	return sp
}

func vfRunBA(t *testing.T, spec *vfSpec, res *vfRes) {
	b := &vfBAState{
		cb: map[*vfStreamRun]*atomic.Int64{}, lastAbove: map[*vfStreamRun]bool{}, lastCb: map[*vfStreamRun]int64{}, th: map[*vfStreamRun]uint64{},
	}
	for side := 0; side < 2; side++ {
		b.tx[side] = map[uint32][2]int{}
		b.acked[side] = map[uint32]bool{}
		b.ackedSID[side] = map[uint16]int64{}
	}
	b.initTSN = [2]uint32{spec.A.InitTSN, spec.B.InitTSN}
	// channels used inside the bubble must be created inside it (a wait on an outside channel is not a
	// durable block and would freeze virtual time)
	var stop, samplerDone chan struct{}
	o := vfXferOpts{mon: vfMonDefault(spec), hsProp: "C04"}
	o.onEstablished = func(s *vfSim, w *vfWork) {
		stop = make(chan struct{})
		samplerDone = make(chan struct{})
		// pollers: the getters are called all the time from goroutines of their own, not only at quiescent points
		// (values unused: this is for the race detector and for lock-order problems)
		for side := 0; side < 2; side++ {
			a := s.getAssoc(side)
			go func() {
				pr := vfNewRand(spec.Seed ^ 0x9011)
				for {
					select {
					case <-stop:
						return
					case <-s.net.pumpDone:
						return
					default:
					}
					_ = a.BufferedAmount()
					for _, run := range w.allRuns() {
						run.mu.Lock()
						ws := run.wStream
						run.mu.Unlock()
						if ws != nil {
							_ = ws.BufferedAmount()
							_ = ws.BufferedAmountLowThreshold()
						}
					}
					time.Sleep(time.Duration(200+pr.Intn(1800)) * time.Microsecond)
				}
			}()
		}
		// install the callbacks as soon as the writer streams exist
		go func() {
			defer close(samplerDone)
			installed := map[*vfStreamRun]bool{}
			for {
				for _, run := range w.allRuns() {
					run.mu.Lock()
					ws := run.wStream
					run.mu.Unlock()
					if ws == nil || installed[run] {
						continue
					}
					if run.cfg.SID == 60 {
						// writes on this stream fail at their deadline: a roll-back lowers the amount without an
						// acknowledgement, which is not a crossing the callback is promised for
						installed[run] = true

						continue
					}
					installed[run] = true
					cnt := &atomic.Int64{}
					var th uint64
					switch spec.x("th_class", 0) {
					case 1:
						th = 2000
					case 2:
						th = 10 << 20
					}
					a := s.getAssoc(run.wside)
					ws.SetBufferedAmountLowThreshold(th)
					reenter := spec.x("reenter_write", 0) == 1
					run := run
					ws.OnBufferedAmountLow(func() {
						cnt.Add(1)
						// re-entrancy: none of these may block on a lock held by the caller
						_ = ws.BufferedAmount()
						_ = a.BufferedAmount()
						_ = ws.BufferedAmountLowThreshold()
						ws.SetBufferedAmountLowThreshold(th)
						_ = ws.State()
						if reenter && cnt.Load()%7 == 1 {
							msg := vfMakeMsg(run.key, 500000+int(cnt.Load()), 40)
							ev := s.apiCall(run.wside, "write", run.cfg.SID)
							ev.N = len(msg)
							n, err := ws.WriteSCTP(msg, 53)
							s.apiRet(ev, n, err)
							run.mu.Lock()
							run.writes = append(run.writes, vfWriteRec{Idx: 500000 + int(cnt.Load()), Size: len(msg), PPI: 53, Hash: vfMsgHash(53, msg), Accepted: err == nil, Err: err, Unordered: run.cfg.Unordered, RelType: run.cfg.RelType, RelVal: run.cfg.RelVal, NoOrder: true})
							run.mu.Unlock()
							if err == nil {
								run.nWrit.Add(1)
							}
						}
					})
					b.mu.Lock()
					b.cb[run], b.th[run] = cnt, th
					b.mu.Unlock()
				}
				select {
				case <-stop:
					return
				case <-s.net.pumpDone:
					return
				default:
				}
				time.Sleep(time.Duration(3+s.rnd.Intn(40)) * time.Millisecond)
				vfBASample(s, w, b, false)
			}
		}()
	}
	// failed blocking writes: in blocking-write mode a dedicated stream (a run like the others, so every oracle
	// applies to it) gets a bounded number of writes with a 0-3 ms deadline while the gate is mostly closed; each
	// failure rolls the buffered amount back while acknowledgements release bytes
	var nFailed atomic.Int64
	prevEst := o.onEstablished
	o.onEstablished = func(s *vfSim, w *vfWork) {
		prevEst(s, w)
		if !spec.A.BlockWrite {
			return
		}
		st, err := s.A().OpenStream(60, PayloadTypeWebRTCBinary)
		rs, err2 := s.B().OpenStream(60, PayloadTypeWebRTCBinary)
		if err != nil || err2 != nil {
			return
		}
		run := &vfStreamRun{
			cfg: vfStreamCfg{SID: 60, Dir: 0, SizeMode: "mixed", Reader: "fast"}, key: vfMsgKey(spec.Seed, 0, 60, 0), wside: 0,
			wDone: make(chan struct{}), rDone: make(chan struct{}), resume: make(chan struct{}), wStream: st, rStream: rs,
		}
		w.runsMu.Lock()
		w.runs = append(w.runs, run)
		w.runsMu.Unlock()
		go func() {
			defer close(run.rDone)
			buf := make([]byte, 65536)
			for {
				n, ppi, err := rs.ReadSCTP(buf)
				w.recordRead(run, buf[:n], uint32(ppi), n, err)
				if err != nil {
					return
				}
			}
		}()
		go func() {
			defer close(run.wDone)
			fr := vfNewRand(spec.Seed ^ 0xfa11)
			for i := 0; i < 150; i++ {
				select {
				case <-s.net.pumpDone:
					return
				default:
				}
				msg := vfMakeMsg(run.key, i, 200+fr.Intn(3000))
				_ = st.SetWriteDeadline(time.Now().Add(time.Duration(fr.Pick(0, 1, 3)) * time.Millisecond))
				ev := s.apiCall(0, "write", 60)
				ev.N = len(msg)
				n, err := st.WriteSCTP(msg, PayloadTypeWebRTCBinary)
				s.apiRet(ev, n, err)
				run.mu.Lock()
				run.writes = append(run.writes, vfWriteRec{Idx: i, Size: len(msg), PPI: 53, Hash: vfMsgHash(53, msg), Accepted: err == nil, Err: err})
				run.mu.Unlock()
				if err != nil {
					nFailed.Add(1)
				} else {
					run.nWrit.Add(1)
				}
				time.Sleep(time.Duration(fr.Intn(5)) * time.Millisecond)
			}
			_ = st.SetWriteDeadline(time.Time{})
		}()
	}
	o.beforeTeardown = func(s *vfSim, w *vfWork) {
		close(stop)
		<-samplerDone
		res.count("c15_failed_blocking_writes", nFailed.Load())
		vfBASample(s, w, b, true)
	}
	out := vfRunTransfer(t, spec, res, o)
	var ncb int64
	for _, c := range b.cb {
		ncb += c.Load()
	}
	res.count("c15_callbacks", ncb)
	paths := ""
	for _, m := range []string{"gap-blocks", "retransmission", "abandoned", "threshold-crossed"} {
		if res.has(m) {
			paths += m + ","
		}
	}
	res.res.Nontrivial = res.has("gap-blocks") || res.has("abandoned")
	res.res.Sig = fmt.Sprintf("th%d|streams%d|bw%v|%s", spec.x("th_class", 0), len(spec.Streams), spec.A.BlockWrite, paths)
	res.res.Sample = map[string]any{"threshold_class": spec.x("th_class", 0), "streams": len(spec.Streams), "stream_samples": res.get("c15_stream_samples"), "callbacks": ncb, "crossings_seen": res.get("c15_crossings"), "link": spec.Link, "release_paths": paths}
	_ = out
}

func init() { //nolint:gochecknoinits
	vfRegister(&vfProperty{
		id: "C15",
		list: func(tier string, seed uint64, race bool) []vfSpec {
			n := vfTierN(tier, 210, 3000)
			if race {
				n = vfTierN(tier, 30, 200)
			}
			out := make([]vfSpec, 0, n)
			for i := 0; i < n; i++ {
				out = append(out, vfGenBASpec(i, seed))
			}

			return out
		},
		run: vfRunBA,
	})
}
