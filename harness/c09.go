//go:build verif

package sctp

// C09 — Close, Abort or transport failure at any moment unblocks callers and
// leaks nothing. Crash-point enumeration: the action is fired immediately after
// the i-th packet written (by either side) of a handshake / transfer / stream
// reset / shutdown scenario, with callers parked in the blocking APIs.

import (
	"context"
	"errors"
	"fmt"
	"io"
	"os"
	"net"
	"strings"
	"sync"
	"testing"
	"time"
)

type vfParked struct {
	name string
	side int
	done chan struct{}
	err  error
	retT time.Duration
}

type vfParkSet struct {
	mu    sync.Mutex
	calls []*vfParked
}

func (ps *vfParkSet) park(sim *vfSim, name string, side int, f func() error) *vfParked {
	p := &vfParked{name: name, side: side, done: make(chan struct{})}
	ps.mu.Lock()
	ps.calls = append(ps.calls, p)
	ps.mu.Unlock()
	go func() {
		defer close(p.done)
		p.err = f()
		p.retT = sim.net.now()
	}()

	return p
}

func (p *vfParked) returned() bool {
	select {
	case <-p.done:
		return true
	default:
		return false
	}
}

//nolint:gocognit,cyclop,gocyclo,maintidx
func vfRunCrashPoint(t *testing.T, spec *vfSpec, res *vfRes) {
	vfRunBubble(t, spec.ID, func(t *testing.T) {
		sim := vfNewSim(t, spec, res)
		kind := spec.Kind
		action := spec.XS["action"]
		side := int(spec.x("side", 0))
		trigger := int(spec.x("event", 1))
		ps := &vfParkSet{}
		fired := make(chan struct{})
		var fireOnce sync.Once
		var armed bool
		var armMu sync.Mutex
		count := 0
		actionDone := make(chan struct{})
		var actionT0 time.Duration
		var stateAtFire uint32
		var parkedAtFire []string
		reason := "vf-abort-reason-" + spec.ID
		// which error the failing transport reports is an input: real transports return io.EOF, closed-pipe
		// and net.ErrClosed as well as their own errors
		injErr := []error{errVFInjected, io.EOF, io.ErrClosedPipe, net.ErrClosed, vfTimeoutErr{}}[vfHash(spec.Seed, 0xe44)%5]

		doAction := func() {
			defer close(actionDone)
			a := sim.getAssoc(side)
			actionT0 = sim.net.now()
			if a != nil {
				stateAtFire = a.getState()
			}
			ps.mu.Lock()
			for _, p := range ps.calls {
				if p.side == side && !p.returned() {
					parkedAtFire = append(parkedAtFire, p.name)
				}
			}
			ps.mu.Unlock()
			conn := sim.net.conns[side]
			switch action {
			case "close":
				if a != nil {
					ev := sim.apiCall(side, "aclose", 0)
					err := a.Close()
					sim.apiRet(ev, 0, err)
				} else {
					_ = conn.Close()
				}
			case "close3":
				_ = injErr
				if a == nil {
					_ = conn.Close()

					return
				}
				var wg sync.WaitGroup
				ev := sim.apiCall(side, "aclose", 0)
				for i := 0; i < 3; i++ {
					wg.Add(1)
					go func() {
						defer wg.Done()
						_ = a.Close()
					}()
				}
				wg.Wait()
				_ = a.Close() // and once more afterwards
				sim.apiRet(ev, 0, nil)
			case "abort":
				if a != nil {
					ev := sim.apiCall(side, "abort", 0)
					a.Abort(reason)
					sim.apiRet(ev, 0, nil)
				} else {
					_ = conn.Close()
				}
			case "readerr":
				sim.apiCall(side, "aclose", 0)
				conn.failRead(injErr)
			case "writeerr":
				sim.apiCall(side, "aclose", 0)
				conn.failWrite(injErr)
				// make sure a write is attempted so that the failure is observed
				if a != nil {
					a.ActiveHeartbeat()
					a.lock.Lock()
					a.awakeWriteLoop()
					a.lock.Unlock()
				}
			case "connclose":
				sim.apiCall(side, "aclose", 0)
				_ = conn.Close()
			}
		}
		sim.net.onWrite = func(_ int, _ []byte) {
			armMu.Lock()
			if !armed {
				armMu.Unlock()

				return
			}
			count++
			hit := count == trigger
			armMu.Unlock()
			if hit {
				fireOnce.Do(func() {
					close(fired)
					go doAction()
				})
			}
		}
		arm := func() {
			armMu.Lock()
			armed = true
			armMu.Unlock()
		}

		var w *vfWork
		var lateDeadlineStream *Stream
		var pollStreams []*Stream
		farDeadline := 40 * time.Minute
		parkTransferCallers := func() {
			a := sim.getAssoc(side)
			// reader without deadline on a stream nobody writes to
			if st, err := a.OpenStream(500, PayloadTypeWebRTCBinary); err == nil {
				// three readers on one stream: every one of them has to be released
				for _, nm := range []string{"ReadSCTP", "ReadSCTP#2", "ReadSCTP#3"} {
					ps.park(sim, nm, side, func() error {
						_, _, err := st.ReadSCTP(make([]byte, 100))

						return err
					})
				}
				pollStreams = append(pollStreams, st)
			}
			if st, err := a.OpenStream(501, PayloadTypeWebRTCBinary); err == nil {
				_ = st.SetReadDeadline(time.Now().Add(farDeadline))
				ps.park(sim, "ReadSCTP+deadline", side, func() error {
					_, _, err := st.ReadSCTP(make([]byte, 100))

					return err
				})
			}
			// a stream with an armed read deadline and no reader parked: the deadline expires after the teardown
			if st, err := a.OpenStream(503, PayloadTypeWebRTCBinary); err == nil {
				_ = st.SetReadDeadline(time.Now().Add(30 * time.Second))
				lateDeadlineStream = st
			}
			if spec.A.BlockWrite {
				if st, err := a.OpenStream(502, PayloadTypeWebRTCBinary); err == nil {
					ps.park(sim, "WriteSCTP(blocking)", side, func() error {
						msg := make([]byte, 30000)
						for {
							if _, err := st.WriteSCTP(msg, PayloadTypeWebRTCBinary); err != nil {
								return err
							}
						}
					})
				}
			}
			// AcceptStream is parked by the workload's acceptor goroutine; add an explicit one as well
			ps.park(sim, "AcceptStream", side, func() error {
				for {
					if _, err := a.AcceptStream(); err != nil {
						return err
					}
				}
			})
		}

		switch kind {
		case "cp-handshake":
			gen := &vfScriptRand{fallback: vfNewRand(spec.Seed ^ 0xabc)}
			globalMathRandomGenerator = gen
			arm()
			cfgs := [2]*vfSideCfg{&spec.A, &spec.B}
			for sd := 0; sd < 2; sd++ {
				sd := sd
				gen.push(cfgs[sd].InitTSN, cfgs[sd].Tag|1)
				ps.park(sim, "connect", sd, func() error {
					defer close(sim.connDone[sd])
					opts := vfOptsFor(cfgs[sd], sim.net.conns[sd], sim.sink, fmt.Sprintf("vf%c", 'A'+sd))
					var a *Association
					var err error
					if sd == 0 {
						co := make([]ClientOption, len(opts))
						for i, o := range opts {
							co[i] = o
						}
						a, err = ClientWithOptions(co...)
					} else {
						so := make([]ServerOption, len(opts))
						for i, o := range opts {
							so[i] = o
						}
						a, err = ServerWithOptions(so...)
					}
					sim.mu.Lock()
					sim.connErr[sd] = err
					if a != nil {
						sim.assoc[sd] = a
					}
					sim.mu.Unlock()

					return err
				})
				sim.quiesce()
			}
		default:
			if !sim.start() {
				res.inconclusive("handshake failed")
				sim.teardown()
				sim.finalLeakCheck()

				return
			}
			w = sim.newWork()
			for _, sc := range spec.Streams {
				w.addStream(sc, 0)
			}
			parkTransferCallers()
			time.Sleep(5 * time.Millisecond)
			switch kind {
			case "cp-transfer":
				arm()
			case "cp-reset":
				go func() {
					// close and reopen streams while traffic flows
					for i := 0; i < 6; i++ {
						time.Sleep(time.Duration(20+sim.rnd.Intn(60)) * time.Millisecond)
						for sd := 0; sd < 2; sd++ {
							if st, _ := w.reg[sd].get(uint16(1 + i%2)); st != nil {
								_ = st.Close()
							}
						}
					}
				}()
				arm()
			case "cp-shutdown":
				w.waitWriters(2 * time.Minute)
				sdSide := int(spec.x("sdside", 0))
				a := sim.getAssoc(sdSide)
				arm()
				ps.park(sim, "Shutdown", sdSide, func() error {
					ctx, cancel := context.WithTimeout(context.Background(), time.Hour)
					defer cancel()
					ev := sim.apiCall(sdSide, "shutdown", 0)
					err := a.Shutdown(ctx)
					sim.apiRet(ev, 0, err)

					return err
				})
			}
		}

		// wait for the trigger (the scenario may end before reaching event i)
		if vfWaitCh(fired, 10*time.Minute) != nil {
			res.inconclusive(fmt.Sprintf("%s ended before wire event %d", kind, trigger))
		} else {
			// the action itself (Close / Abort) must return promptly
			if vfWaitCh(actionDone, time.Second) != nil {
				res.violate("C09", "action-hang/"+action, "%s: %s fired after wire event %d (state %d) did not return within 1 s of virtual time", kind, action, trigger, stateAtFire)
			}
			// every call parked on that side returns within 1 s
			time.Sleep(time.Second - (sim.net.now() - actionT0))
			sim.quiesce()
			attempted := action != "writeerr" || sim.net.conns[side].writeErrSeen()
			ps.mu.Lock()
			calls := append([]*vfParked(nil), ps.calls...)
			ps.mu.Unlock()
			for _, p := range calls {
				if p.side != side {
					continue
				}
				if !p.returned() {
					if !attempted {
						continue
					}
					res.violate("C09", fmt.Sprintf("parked/%s/%s", p.name, action), "%s: %s still blocked 1 s after %s on side %d (fired after wire event %d, state %d)", kind, p.name, action, side, trigger, stateAtFire)

					continue
				}
				res.count("c09_parked_returned", 1)
				if p.err == nil && p.name != "Shutdown" && p.name != "connect" {
					res.violate("C09", fmt.Sprintf("parked-nil/%s/%s", p.name, action), "%s: %s returned nil after %s", kind, p.name, action)
				}
			}
			// ABORT delivered to the peer: its parked readers must see the cause
			if action == "abort" {
				delivered := false
				for _, e := range sim.net.events() {
					if e.Kind == vfWrDeliver && e.Side == 1-side && vfFirstChunkKind(e.Raw) == "ABORT" {
						delivered = true
					}
				}
				if delivered {
					res.seen("abort-delivered")
					if w != nil {
						time.Sleep(100 * time.Millisecond)
						for _, r := range w.allRuns() {
							if r.wside != side {
								continue // we want the readers that run on the peer of the aborting side
							}
							r.mu.Lock()
							end := r.readEnd
							started := r.rStream != nil
							r.mu.Unlock()
							if !started || vfIsEOF(end) {
								continue // not reading yet, or the stream had been reset before the ABORT
							}
							if end == nil {
								select {
								case <-r.rDone:
								default:
									res.violate("C09", "abort/peer-reader-blocked", "%s: ABORT was delivered to side %d but its reader on stream %d is still blocked", kind, 1-side, r.cfg.SID)
								}

								continue
							}
							res.count("c09_abort_readers", 1)
							if !errors.Is(end, ErrChunk) || !strings.Contains(end.Error(), reason) {
								res.violate("C09", "abort/cause", "%s: ABORT with reason %q was delivered to side %d but its reader got %v", kind, reason, 1-side, end)
							}
						}
					}
				}
			}
		}

		// tear everything down and look for leaks
		sim.closed = true
		for sd := 0; sd < 2; sd++ {
			if a := sim.getAssoc(sd); a != nil {
				done := make(chan struct{})
				go func() {
					_ = a.Close()
					close(done)
				}()
				if vfWaitCh(done, 5*time.Second) != nil {
					res.violate("C09", "close-hang/"+action, "%s: Close on side %d did not return within 5 s after %s on side %d", kind, sd, action, side)
				}
			} else {
				_ = sim.net.conns[sd].Close()
			}
		}
		<-sim.connDone[0]
		<-sim.connDone[1]
		sim.net.stop()
		vfSimByNet.Delete(sim.net)
		if w != nil {
			w.waitReaders(10 * time.Second)
		}
		// every parked call has returned by now
		time.Sleep(time.Second)
		ps.mu.Lock()
		for _, p := range ps.calls {
			if !p.returned() {
				res.violate("C09", "parked-after-close/"+p.name, "%s: %s still blocked after both associations were closed", kind, p.name)
			}
		}
		ps.mu.Unlock()
		// a read deadline that expires after the teardown must not bring the stream back to life: reads keep
		// failing at once, also after the deadline is cleared
		if lateDeadlineStream != nil {
			time.Sleep(40 * time.Second)
			for round := 0; round < 2; round++ {
				rd := make(chan error, 1)
				go func() {
					_, _, err := lateDeadlineStream.ReadSCTP(make([]byte, 64))
					rd <- err
				}()
				select {
				case err := <-rd:
					if err == nil {
						res.violate("C09", "late-deadline/read-ok", "%s: ReadSCTP on a stream of a closed association returned data", kind)
					}
				case <-time.After(5 * time.Second):
					res.violate("C09", fmt.Sprintf("late-deadline/read-blocks/%d", round), "%s: after the association was closed (%s) and the stream's read deadline expired, ReadSCTP blocks (round %d: %s)", kind, action, round, []string{"deadline expired", "deadline cleared"}[round])
					_ = lateDeadlineStream.SetReadDeadline(time.Now())
					<-rd
				}
				_ = lateDeadlineStream.SetReadDeadline(time.Time{})
			}
			res.count("c09_late_deadline_cases", 1)
			pollStreams = append(pollStreams, lateDeadlineStream)
		}
		// a reader that polls (arms a fresh read deadline, then reads) must keep seeing the terminal error, whatever
		// its class (a transport time-out is a terminal error too): never the deadline, never a blocked read
		for i, st := range pollStreams {
			for round := 0; round < 2; round++ {
				_ = st.SetReadDeadline(time.Now().Add(3 * time.Second))
				rd := make(chan error, 1)
				go func() {
					_, _, err := st.ReadSCTP(make([]byte, 64))
					rd <- err
				}()
				t0 := sim.net.now()
				err := <-rd
				if el := sim.net.now() - t0; el > 0 || errors.Is(err, ErrReadDeadlineExceeded) {
					res.violate("C09", "poll-after-teardown/terminal-error-lost", "%s: after the association ended (%s), SetReadDeadline(+3 s) followed by ReadSCTP on stream #%d returned %v after %v instead of failing at once with the terminal error (round %d)", kind, action, i, err, el, round)
				}
				if errors.Is(err, os.ErrDeadlineExceeded) {
					res.count("c09_poll_terminal_timeout_class", 1)
				}
				_ = st.SetReadDeadline(time.Time{})
			}
			res.count("c09_poll_after_teardown", 1)
		}
		// read-deadline goroutines legitimately live until their instant
		time.Sleep(farDeadline + time.Minute)
		sim.finalLeakCheck()
		// all timers stop: none of the association's timers may still be armed after teardown
		for sd := 0; sd < 2; sd++ {
			a := sim.getAssoc(sd)
			if a == nil {
				continue
			}
			for name, tm := range map[string]*rtxTimer{"T1-init": a.t1Init, "T1-cookie": a.t1Cookie, "T2-shutdown": a.t2Shutdown, "T3-rtx": a.t3RTX, "reconfig": a.tReconfig} {
				res.count("c09_timers_checked", 1)
				if tm != nil && tm.isRunning() {
					res.violate("C09", "timer-running/"+name, "%s: the %s timer of side %d is still armed after the association was closed (action %s on side %d, state at fire %d)", kind, name, sd, action, side, stateAtFire)
				}
			}
			if a.ackTimer != nil && a.ackTimer.isRunning() {
				res.violate("C09", "timer-running/ack", "%s: the delayed-ack timer of side %d is still armed after the association was closed", kind, sd)
			}
		}
		for sd := 0; sd < 2; sd++ {
			if n := sim.net.conns[sd].writesAfterCloseN(); n > 0 {
				res.violate("C09", "write-after-close", "%s: side %d called Write %d time(s) on its transport after Close of the transport had completed", kind, sd, n)
			}
		}
		res.res.Nontrivial = len(parkedAtFire) > 0
		res.res.Sig = fmt.Sprintf("%s|st%d|%s|%s", kind, stateAtFire, action, strings.Join(parkedAtFire, ","))
		res.res.Sample = map[string]any{"kind": kind, "action": action, "side": side, "after_wire_event": trigger, "state_at_fire": vfStateNames[stateAtFire], "parked": parkedAtFire}
	})
}

func vfGenCrashSpecs(tier string, seed uint64, race bool) []vfSpec {
	var out []vfSpec
	kinds := []string{"cp-handshake", "cp-transfer", "cp-reset", "cp-shutdown"}
	actions := []string{"close", "close3", "abort", "readerr", "writeerr", "connclose"}
	idx := 0
	for _, kind := range kinds {
		var events []int
		maxEv := map[string]int{"cp-handshake": 8, "cp-transfer": 160, "cp-reset": 160, "cp-shutdown": 12}[kind]
		if tier == "thorough" && !race {
			for i := 1; i <= maxEv; i++ {
				events = append(events, i)
			}
		} else {
			r := vfNewRand(vfHash(seed, uint64(len(kind)), 0xC09))
			base := []int{1, 2, 3, 4, 6, 9, 14, 22, 35, 56, 90, 140}
			for _, e := range base {
				if e <= maxEv {
					events = append(events, e)
				}
			}
			for len(events) < 14 && maxEv > 14 {
				events = append(events, 1+r.Intn(maxEv))
			}
			if race {
				events = events[:3]
			}
		}
		for _, ev := range events {
			for side := 0; side < 2; side++ {
				for _, act := range actions {
					if race && act != "close3" && act != "abort" {
						continue
					}
					r := vfNewRand(vfHash(seed, uint64(idx), 0xC09))
					sp := vfSpec{Prop: "C09", Kind: kind, ID: fmt.Sprintf("C09-%s-%d", kind, idx), Seed: r.Uint64()}
					sp.A, sp.B = vfSampleSides(r, 50)
					sp.A.MTU, sp.B.MTU = 0, 0
					sp.A.BlockWrite = true
					sp.B.BlockWrite = true
					sp.A.RTOMaxMs, sp.B.RTOMaxMs = 5000, 5000
					sp.Link = vfLinkCfg{DelayUs: 10000, LossPm: r.Pick(0, 50), FaultsFromStart: kind != "cp-handshake" && false}
					if kind == "cp-handshake" && r.Intn(2) == 0 {
						sp.Link.Script = []vfFault{{Dir: r.Intn(2), Kind: "any", Nth: 1 + r.Intn(2), Act: "drop"}}
					}
					if kind != "cp-handshake" {
						n := 3
						for i := 0; i < n; i++ {
							sp.Streams = append(sp.Streams, vfStreamCfg{SID: uint16(i + 1), Dir: i % 2, NMsgs: 60, SizeMode: "mixed", Reader: "fast", GapUs: int64(r.Pick(0, 1000))}) //nolint:gosec
						}
						if kind == "cp-shutdown" {
							for i := range sp.Streams {
								sp.Streams[i].NMsgs = 10
							}
						}
						il := sp.A.IL && sp.B.IL
						sp.A.MaxMsg = vfEffMaxMsg(&sp.A, &sp.B, 2, il)
						sp.B.MaxMsg = vfEffMaxMsg(&sp.B, &sp.A, 2, il)
					}
					sp.X = map[string]int64{"event": int64(ev), "side": int64(side), "sdside": int64(r.Intn(2))}
					sp.XS = map[string]string{"action": act}
					if kind != "cp-handshake" && r.Intn(2) == 0 {
						// seeded delays at the suspension points (between the blocking-write gate's unlock and its wait,
						// before the transport write, after the transport read): the action then also lands inside them
						sp.Yield = r.Pick(150, 400)
					}
					out = append(out, sp)
					idx++
				}
			}
		}
	}

	return out
}

func init() { //nolint:gochecknoinits
	vfRegister(&vfProperty{
		id:   "C09",
		list: vfGenCrashSpecs,
		run:  vfRunCrashPoint,
	})
}
