//go:build verif

package sctp

// Simulated network: a pair of net.Conn endpoints joined by a link that can
// drop / duplicate / delay / reorder packets, runs in virtual time inside a
// synctest bubble, and records every wire event. See DESIGN.md 2.2.

import (
	"container/heap"
	"errors"
	"io"
	"net"
	"os"
	"sync"
	"sync/atomic"
	"testing/synctest"
	"time"
)

// wire event kinds.
const (
	vfWrWrite   = iota // endpoint wrote a packet to its conn
	vfWrDeliver        // packet handed to endpoint's Read (returned from Read)
	vfWrDrop           // link dropped the packet
	vfWrInject         // harness injected a packet towards side
)

type vfWireEv struct {
	Seq  int64
	T    time.Duration // virtual time since sim start
	Kind int
	Side int // for Write: the writer; for Deliver/Inject: the receiver; for Drop: the writer
	Raw  []byte
	Pkt  *vfPkt // decoded lazily by the monitors
	Snap *vfSnap
	Ord  int // ordinal of this packet in its direction (Write events)
	Dup  bool
}

type vfAddr struct{}

func (vfAddr) Network() string { return "vf" }
func (vfAddr) String() string  { return "vf" }

type vfQueued struct {
	due  time.Duration
	seq  int64
	to   int
	raw  []byte
	from int
	ord  int
	dup  bool
	fn   func() // scheduled application action (lock-step mode) instead of a packet
}

type vfHeap []*vfQueued

func (h vfHeap) Len() int { return len(h) }
func (h vfHeap) Less(i, j int) bool {
	if h[i].due != h[j].due {
		return h[i].due < h[j].due
	}

	return h[i].seq < h[j].seq
}
func (h vfHeap) Swap(i, j int) { h[i], h[j] = h[j], h[i] }
func (h *vfHeap) Push(x any)   { *h = append(*h, x.(*vfQueued)) }
func (h *vfHeap) Pop() any {
	old := *h
	n := len(old)
	x := old[n-1]
	*h = old[:n-1]

	return x
}

// vfNet owns the link and the wire log.
type vfNet struct {
	cfg   vfLinkCfg
	seed  uint64
	t0    time.Time
	conns [2]*vfConn

	mu       sync.Mutex
	log      []*vfWireEv
	q        vfHeap
	ord      [2]int            // packets written per direction (dir = writer side)
	kindOrd  [2]map[string]int // per-direction per-kind ordinals
	burst    [2]int
	healAt   time.Duration // absolute virtual offset after which the link is perfect (0 = never)
	faultsOn bool
	armedAt  time.Duration
	frozen   bool // hold all packets (not delivered until released)
	frozenDir [2]bool
	held     []*vfQueued
	stopped  bool
	lastDue  [2]time.Duration
	relBase  [2]int
	relSet   bool

	seq      atomic.Int64
	wake     chan struct{}
	waitSem  chan struct{} // serialises synctest.Wait callers
	pumpDone chan struct{}

	onWrite func(side int, raw []byte) // optional tap (e.g. crash-point injection); called without net.mu
	snapFn  func(side int) *vfSnap
	afterSettle func() // lock-step mode: runs on the pump goroutine after every settle
	holeSeen   int
	closeGrace time.Duration // injected yield delays (spec.Yield) stretch a write that was already on its way over virtual time
	nDrop   int
	nDup    int
	nDelay  int
}

func vfNewNet(cfg vfLinkCfg, seed uint64) *vfNet {
	n := &vfNet{
		cfg: cfg, seed: seed, t0: time.Now(),
		wake:     make(chan struct{}, 1),
		waitSem:  make(chan struct{}, 1),
		pumpDone: make(chan struct{}),
	}
	n.kindOrd[0] = map[string]int{}
	n.kindOrd[1] = map[string]int{}
	n.conns[0] = vfNewConn(n, 0)
	n.conns[1] = vfNewConn(n, 1)
	if cfg.DelayUs == 0 {
		n.cfg.DelayUs = 10000
	}
	n.faultsOn = cfg.FaultsFromStart

	return n
}

func (n *vfNet) now() time.Duration { return time.Since(n.t0) }

// vfWait is synctest.Wait serialised over all callers of one bubble.
func (n *vfNet) vfWait() {
	n.waitSem <- struct{}{}
	synctest.Wait()
	<-n.waitSem
}

func (n *vfNet) record(ev *vfWireEv) *vfWireEv {
	ev.Seq = n.seq.Add(1)
	ev.T = n.now()
	vfProgress.Add(1)
	n.mu.Lock()
	n.log = append(n.log, ev)
	n.mu.Unlock()

	return ev
}

func (n *vfNet) poke() {
	select {
	case n.wake <- struct{}{}:
	default:
	}
}

// armFaults switches the stochastic fault policy on (called at establishment
// unless FaultsFromStart) and fixes the heal instant relative to now.
func (n *vfNet) armFaults() {
	n.mu.Lock()
	n.faultsOn = true
	n.armedAt = n.now()
	if n.cfg.HealUs > 0 {
		n.healAt = n.now() + time.Duration(n.cfg.HealUs)*time.Microsecond
	}
	n.mu.Unlock()
}

func (n *vfNet) healNow() {
	n.mu.Lock()
	n.healAt = n.now()
	if n.healAt == 0 {
		n.healAt = 1
	}
	n.mu.Unlock()
}

func (n *vfNet) healed() bool {
	n.mu.Lock()
	defer n.mu.Unlock()

	return n.healAt > 0 && n.now() >= n.healAt
}

// send is called by a conn's Write.
func (n *vfNet) send(from int, raw []byte) {
	cp := make([]byte, len(raw))
	copy(cp, raw)
	var snap *vfSnap
	if n.snapFn != nil {
		snap = n.snapFn(from)
	}
	kind := vfFirstChunkKind(cp)

	n.mu.Lock()
	n.ord[from]++
	ord := n.ord[from]
	n.kindOrd[from][kind]++
	kord := n.kindOrd[from][kind]
	// RECONFIG packets are also counted by what they carry: only responses ("RECONFIG-RESP") or a request
	kind2, kord2 := "", 0
	if kind == "RECONFIG" {
		kind2 = "RECONFIG-RESP"
		pk := vfDecode(cp)
		for i := range pk.Chunks {
			for _, pr := range pk.Chunks[i].Params {
				if _, isReq := vfParseResetReq(pr); isReq {
					kind2 = "RECONFIG-REQ"
				}
			}
		}
		n.kindOrd[from][kind2]++
		kord2 = n.kindOrd[from][kind2]
	}
	n.mu.Unlock()

	n.record(&vfWireEv{Kind: vfWrWrite, Side: from, Raw: cp, Snap: snap, Ord: ord})
	if n.onWrite != nil {
		n.onWrite(from, cp)
	}

	now := n.now()
	delay := time.Duration(n.cfg.DelayUs) * time.Microsecond
	drop, dup := false, false
	var dupDelay time.Duration

	n.mu.Lock()
	if n.stopped {
		n.mu.Unlock()

		return
	}
	// scripted faults are always active
	for _, f := range n.cfg.Script {
		if f.Dir != from {
			continue
		}
		match := (f.Kind == "any" && !f.Rel && f.Nth == ord) || (f.Kind == kind && f.Nth == kord) || (kind2 != "" && f.Kind == kind2 && f.Nth == kord2) ||
			(f.Kind == "any" && f.Rel && n.relSet && f.Nth == ord-n.relBase[from])
		if !match {
			continue
		}
		switch f.Act {
		case "drop":
			drop = true
		case "dup":
			dup = true
			dupDelay = time.Duration(f.DelayUs) * time.Microsecond
		case "delay":
			delay += time.Duration(f.DelayUs) * time.Microsecond
			n.nDelay++
		}
	}
	// a hole: the packets carrying one particular TSN of direction 0 are dropped the first HoleTimes times
	if n.cfg.HoleTimes > 0 && from == 0 && n.holeSeen < n.cfg.HoleTimes && (kind == "DATA" || kind == "I-DATA") {
		pk := vfDecode(cp)
		for i := range pk.Chunks {
			if c := &pk.Chunks[i]; c.isData() && c.TSN == n.cfg.HoleTSN {
				drop = true
				n.holeSeen++

				break
			}
		}
	}
	if n.faultsOn {
		rel := now - n.armedAt
		for _, b := range n.cfg.Blackouts {
			if (int(b[0]) == from || b[0] == 2) && rel >= time.Duration(b[1])*time.Microsecond && rel < time.Duration(b[2])*time.Microsecond {
				drop = true
			}
		}
	}
	active := n.faultsOn && (n.healAt == 0 || now < n.healAt)
	reorderable := false
	if active && !drop {
		h := vfHash(n.seed, uint64(from), uint64(ord), 0x11)
		pm := func(salt uint64) int { return int(vfHash(h, salt) % 1000) }
		if n.burst[from] > 0 {
			n.burst[from]--
			drop = true
		} else if n.cfg.BurstPm > 0 && pm(1) < n.cfg.BurstPm {
			n.burst[from] = n.cfg.BurstLen - 1
			drop = true
		}
		if pm(2) < n.cfg.LossPm {
			drop = true
		}
		if kind == "SACK" && n.cfg.SackLossPm > 0 && pm(3) < n.cfg.SackLossPm {
			drop = true
		}
		if (kind == "DATA" || kind == "I-DATA") && n.cfg.DataLossPm > 0 && pm(6) < n.cfg.DataLossPm {
			drop = true
		}
		if !drop && n.cfg.DupPm > 0 && pm(4) < n.cfg.DupPm {
			dup = true
			dupDelay = time.Duration(vfHash(h, 7)%uint64(n.cfg.DelayUs*4+1)) * time.Microsecond
		}
		if n.cfg.JitterUs > 0 {
			delay += time.Duration(vfHash(h, 5)%uint64(n.cfg.JitterUs+1)) * time.Microsecond
			reorderable = true
		}
	}
	if drop {
		n.nDrop++
		n.mu.Unlock()
		n.record(&vfWireEv{Kind: vfWrDrop, Side: from, Raw: cp, Ord: ord})

		return
	}
	due := now + delay
	if !reorderable && due < n.lastDue[from] {
		due = n.lastDue[from] // FIFO on a non-jittery link
	}
	if !reorderable {
		n.lastDue[from] = due
	}
	item := &vfQueued{due: due, seq: n.seq.Add(1), to: 1 - from, raw: cp, from: from, ord: ord}
	if n.frozen || n.frozenDir[from] {
		n.held = append(n.held, item)
	} else {
		heap.Push(&n.q, item)
	}
	if dup {
		n.nDup++
		d := &vfQueued{due: due + dupDelay, seq: n.seq.Add(1), to: 1 - from, raw: cp, from: from, ord: ord, dup: true}
		if n.frozen || n.frozenDir[from] {
			n.held = append(n.held, d)
		} else {
			heap.Push(&n.q, d)
		}
	}
	n.mu.Unlock()
	n.poke()
}

// inject queues a harness-made packet for delivery to side `to` after delay.
func (n *vfNet) inject(to int, raw []byte, delay time.Duration) {
	cp := make([]byte, len(raw))
	copy(cp, raw)
	n.mu.Lock()
	heap.Push(&n.q, &vfQueued{due: n.now() + delay, seq: n.seq.Add(1), to: to, raw: cp, from: -1})
	n.mu.Unlock()
	n.poke()
}

// schedule runs fn on the pump goroutine at virtual offset `at` (ordered with packet deliveries by
// (due, seq)); in lock-step mode everything has settled before and after it runs.
func (n *vfNet) schedule(at time.Duration, fn func()) {
	n.mu.Lock()
	heap.Push(&n.q, &vfQueued{due: at, seq: n.seq.Add(1), fn: fn})
	n.mu.Unlock()
	n.poke()
}

// freeze holds every packet written from now on until release is called.
func (n *vfNet) freeze() {
	n.mu.Lock()
	n.frozen = true
	n.mu.Unlock()
}

// dropQueued discards everything in flight on the link (and held).
func (n *vfNet) dropQueued() {
	n.mu.Lock()
	n.q = n.q[:0]
	n.held = nil
	n.mu.Unlock()
}

// markRel makes relative fault ordinals count from the packets written after this instant.
func (n *vfNet) markRel() {
	n.mu.Lock()
	if !n.relSet {
		n.relBase = n.ord
		n.relSet = true
	}
	n.mu.Unlock()
}

// freezeDir holds every packet written by side `from` from now on.
func (n *vfNet) freezeDir(from int) {
	n.mu.Lock()
	n.frozenDir[from] = true
	n.mu.Unlock()
}

func (n *vfNet) release() {
	n.mu.Lock()
	n.frozen = false
	n.frozenDir = [2]bool{}
	now := n.now()
	for _, it := range n.held {
		if it.due < now {
			it.due = now
		}
		heap.Push(&n.q, it)
	}
	n.held = nil
	n.mu.Unlock()
	n.poke()
}

func (n *vfNet) stop() {
	n.mu.Lock()
	if n.stopped {
		n.mu.Unlock()

		return
	}
	n.stopped = true
	n.mu.Unlock()
	n.poke()
	<-n.pumpDone
}

// pump delivers queued packets in (due, seq) order. In lock-step mode it waits
// for the whole bubble to be quiescent before each delivery.
func (n *vfNet) pump() {
	defer close(n.pumpDone)
	for {
		if n.cfg.Lockstep {
			n.vfWait()
			if n.afterSettle != nil {
				n.afterSettle()
				n.vfWait()
			}
		}
		n.mu.Lock()
		if n.stopped {
			n.mu.Unlock()

			return
		}
		var next *vfQueued
		if len(n.q) > 0 {
			next = n.q[0]
		}
		now := n.now()
		if next != nil && next.due <= now {
			heap.Pop(&n.q)
			n.mu.Unlock()
			if next.fn != nil {
				next.fn()
			} else {
				n.conns[next.to].deliver(next)
			}

			continue
		}
		n.mu.Unlock()
		if next == nil {
			<-n.wake

			continue
		}
		t := time.NewTimer(next.due - now)
		select {
		case <-n.wake:
			t.Stop()
		case <-t.C:
		}
	}
}

func (n *vfNet) events() []*vfWireEv {
	n.mu.Lock()
	defer n.mu.Unlock()
	out := make([]*vfWireEv, len(n.log))
	copy(out, n.log)

	return out
}

// faultsHit: number of packets dropped, duplicated or delayed by the fault policy so far.
func (n *vfNet) faultsHit() int {
	n.mu.Lock()
	defer n.mu.Unlock()

	return n.nDrop + n.nDup + n.nDelay
}

func (n *vfNet) queued() int {
	n.mu.Lock()
	defer n.mu.Unlock()

	return len(n.q) + len(n.held)
}

// ---------------------------------------------------------------- conn

var errVFInjected = errors.New("vf: injected transport error") //nolint:gochecknoglobals

type vfTimeoutErr struct{}

func (vfTimeoutErr) Error() string   { return "vf: i/o timeout" }
func (vfTimeoutErr) Timeout() bool   { return true }
func (vfTimeoutErr) Temporary() bool { return true }
func (vfTimeoutErr) Unwrap() error   { return os.ErrDeadlineExceeded }

type vfConn struct {
	net  *vfNet
	side int

	mu         sync.Mutex
	inbox      []*vfQueued
	notify     chan struct{}
	closed     bool
	closeDone  bool
	rdDeadline time.Time
	readErr    error // injected: next Read returns this
	writeErr   error // injected: next Write returns this
	writesAfterClose int
	writeInFlight    int
	nClose     int
	writeErrHits int
	closeT     time.Duration
}

func vfNewConn(n *vfNet, side int) *vfConn {
	return &vfConn{net: n, side: side, notify: make(chan struct{}, 1)}
}

func (c *vfConn) pokeReader() {
	select {
	case c.notify <- struct{}{}:
	default:
	}
}

func (c *vfConn) deliver(it *vfQueued) {
	c.mu.Lock()
	if c.closed {
		c.mu.Unlock()

		return
	}
	c.inbox = append(c.inbox, it)
	c.mu.Unlock()
	c.pokeReader()
}

func (c *vfConn) Read(b []byte) (int, error) {
	for {
		c.mu.Lock()
		if c.readErr != nil {
			err := c.readErr
			c.mu.Unlock()

			return 0, err
		}
		if c.closed {
			c.mu.Unlock()

			return 0, io.EOF
		}
		if !c.rdDeadline.IsZero() && !time.Now().Before(c.rdDeadline) {
			c.mu.Unlock()

			return 0, vfTimeoutErr{}
		}
		if len(c.inbox) > 0 {
			it := c.inbox[0]
			c.inbox = c.inbox[1:]
			c.mu.Unlock()
			nb := copy(b, it.raw)
			kind := vfWrDeliver
			if it.from < 0 {
				kind = vfWrInject
			}
			var snap *vfSnap
			if c.net.snapFn != nil {
				snap = c.net.snapFn(c.side)
			}
			c.net.record(&vfWireEv{Kind: kind, Side: c.side, Raw: it.raw, Ord: it.ord, Dup: it.dup, Snap: snap})

			return nb, nil
		}
		dl := c.rdDeadline
		c.mu.Unlock()
		if dl.IsZero() {
			<-c.notify
		} else {
			t := time.NewTimer(time.Until(dl))
			select {
			case <-c.notify:
				t.Stop()
			case <-t.C:
			}
		}
	}
}

func (c *vfConn) Write(b []byte) (int, error) {
	c.mu.Lock()
	if c.writeErr != nil {
		err := c.writeErr
		c.writeErrHits++
		c.mu.Unlock()

		return 0, err
	}
	if c.closed {
		// a Write that is already on its way when Close completes is harmless (it fails); one that starts
		// at a later virtual instant means something is still trying to send
		if c.closeDone && c.net.now() > c.closeT+c.net.closeGrace {
			c.writesAfterClose++
		}
		c.mu.Unlock()

		return 0, io.ErrClosedPipe
	}
	c.mu.Unlock()
	c.net.send(c.side, b)

	return len(b), nil
}

func (c *vfConn) Close() error {
	c.mu.Lock()
	c.nClose++
	if !c.closed {
		c.closeT = c.net.now()
	}
	c.closed = true
	c.closeDone = true
	c.mu.Unlock()
	c.pokeReader()

	return nil
}

func (c *vfConn) failRead(err error) {
	c.mu.Lock()
	c.readErr = err
	c.mu.Unlock()
	c.pokeReader()
}

func (c *vfConn) failWrite(err error) {
	c.mu.Lock()
	c.writeErr = err
	c.mu.Unlock()
}

func (c *vfConn) LocalAddr() net.Addr  { return vfAddr{} }
func (c *vfConn) RemoteAddr() net.Addr { return vfAddr{} }

func (c *vfConn) SetDeadline(t time.Time) error {
	_ = c.SetReadDeadline(t)

	return nil
}

func (c *vfConn) SetReadDeadline(t time.Time) error {
	c.mu.Lock()
	c.rdDeadline = t
	c.mu.Unlock()
	c.pokeReader()

	return nil
}

func (c *vfConn) SetWriteDeadline(time.Time) error { return nil }

func (c *vfConn) writeErrSeen() bool {
	c.mu.Lock()
	defer c.mu.Unlock()

	return c.writeErrHits > 0
}

func (c *vfConn) writesAfterCloseN() int {
	c.mu.Lock()
	defer c.mu.Unlock()

	return c.writesAfterClose
}
