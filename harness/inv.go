//go:build verif

package sctp

// M-INV: structural invariant walker. Runs with a.lock held (at hooks) or at
// quiescent points. Each clause tolerates only the transient states that the
// code legitimately exhibits under its own lock. See DESIGN.md section 3.

import (
	"math/bits"
)

func vfInvProp(clause string) string {
	switch clause {
	case "inflight", "rack":
		return "C10"
	case "pending":
		return "C17"
	case "recvq":
		return "C05"
	case "reasm":
		return "C11"
	case "readable":
		// a deliverable message for which readers are not signalled: the delivery guarantee it breaks first is
		// C07's (it arises when a FORWARD-TSN moves the stream cursor past a complete queued message)
		return "C07"
	}

	return "C11"
}

//nolint:gocognit,cyclop,gocyclo
func vfCheckInvariants(a *Association, side int, res *vfRes, ev int) {
	res.count("inv_walks", 1)
	bad := func(clause, key, format string, args ...any) {
		res.violate(vfInvProp(clause), "inv/"+clause+"/"+key, "M-INV side %d ev %d: "+format, append([]any{side, ev}, args...)...)
	}

	// 1. in-flight queue
	q := a.inflightQueue
	n := q.chunks.Len()
	sum := 0
	if n > 0 {
		front := q.chunks.Front().tsn
		if front != a.cumulativeTSNAckPoint+1 {
			bad("inflight", "front", "front TSN %d != cumulative ack point %d + 1", front, a.cumulativeTSNAckPoint)
		}
		for i := 0; i < n; i++ {
			c := q.chunks.At(i)
			if c == nil {
				bad("inflight", "nil", "nil chunk at %d", i)

				break
			}
			if c.tsn != front+uint32(i) { //nolint:gosec
				bad("inflight", "consecutive", "TSN at index %d is %d, want %d", i, c.tsn, front+uint32(i)) //nolint:gosec

				break
			}
			sum += len(c.userData)
			if c.acked && c.retransmit {
				bad("inflight", "acked-retransmit", "TSN %d both acked and marked for retransmission", c.tsn)
			}
			if c.acked && len(c.userData) != 0 {
				bad("inflight", "acked-payload", "TSN %d acked but still holds %d payload bytes", c.tsn, len(c.userData))
			}
		}
		if last := q.chunks.At(n - 1); last != nil && last.tsn+1 != a.myNextTSN {
			bad("inflight", "tail", "last in-flight TSN %d + 1 != next TSN %d", last.tsn, a.myNextTSN)
		}
	}
	if sum != q.nBytes {
		bad("inflight", "nbytes", "nBytes %d != recount %d over %d chunks", q.nBytes, sum, n)
	}

	// 1b. the advanced peer ack point may only run over abandoned or acknowledged chunks (C07)
	if sna32GT(a.advancedPeerTSNAckPoint, a.cumulativeTSNAckPoint) && a.advancedPeerTSNAckPoint-a.cumulativeTSNAckPoint < 1<<20 {
		for t := a.cumulativeTSNAckPoint + 1; sna32LTE(t, a.advancedPeerTSNAckPoint); t++ {
			c, ok := q.get(t)
			if !ok {
				res.violate("C07", "inv/advpeer/unsent", "M-INV side %d: advanced peer ack point %d is beyond the in-flight queue (TSN %d not in flight)", side, a.advancedPeerTSNAckPoint, t)

				break
			}
			if !c.abandoned() && !c.acked {
				res.violate("C07", "inv/advpeer/live", "M-INV side %d: advanced peer ack point %d covers TSN %d which is neither abandoned nor acknowledged", side, a.advancedPeerTSNAckPoint, t)

				break
			}
		}
	}

	// 2. pending queue
	pb, pc, walked := vfWalkPending(a.pendingQueue)
	if walked {
		if pb != a.pendingQueue.nBytes || pc != a.pendingQueue.nChunks {
			bad("pending", "count", "nBytes/nChunks %d/%d != recount %d/%d", a.pendingQueue.nBytes, a.pendingQueue.nChunks, pb, pc)
		}
	}

	// 2b. blocking-write gate: it is closed by the writer that queues data and opened by the call that drains
	// the pending queue, both under a.lock; closed with nothing pending means no one will ever open it (C02: permanently stuck)
	if a.blockWrite && a.writePending && a.pendingQueue.size() == 0 {
		res.violate("C02", "inv/gate/closed-empty", "M-INV side %d ev %d: blocking-write gate is closed (writePending) while the pending queue is empty: nothing will reopen it, every later write blocks until its deadline", side, ev)
	}

	// 3. RACK list
	cnt := 0
	var prev *chunkPayloadData
	for c := a.rackHead; c != nil; c = c.rackNext {
		cnt++
		if cnt > n+1 {
			bad("rack", "cycle", "RACK list longer than in-flight queue (%d > %d): cycle or stale members", cnt, n)

			break
		}
		if c.rackPrev != prev {
			bad("rack", "links", "rackPrev mismatch at TSN %d", c.tsn)
		}
		if !c.rackInList {
			bad("rack", "flag", "member TSN %d without rackInList", c.tsn)
		}
		if g, ok := q.get(c.tsn); !ok || g != c {
			bad("rack", "member", "RACK member TSN %d is not in the in-flight queue", c.tsn)
		}
		prev = c
	}
	if cnt <= n+1 && a.rackTail != prev {
		bad("rack", "tail", "rackTail does not match last member")
	}

	// 4. receive payload queue
	rq := a.payloadQueue
	pop := 0
	for _, w := range rq.tsnBitmask {
		pop += bits.OnesCount64(w)
	}
	if pop != rq.chunkSize {
		bad("recvq", "popcount", "chunkSize %d != bitmap popcount %d", rq.chunkSize, pop)
	}
	span := rq.tailTSN - rq.cumulativeTSN
	if sna32LT(rq.tailTSN, rq.cumulativeTSN) {
		bad("recvq", "tail-behind", "tailTSN %d behind cumulativeTSN %d", rq.tailTSN, rq.cumulativeTSN)
	} else if span > rq.maxTSNOffset {
		bad("recvq", "span", "tailTSN-cumulativeTSN = %d exceeds tracking window %d", span, rq.maxTSNOffset)
	} else if span <= 65536 {
		inRange := 0
		for t := rq.cumulativeTSN + 1; sna32LTE(t, rq.tailTSN); t++ {
			if rq.hasChunk(t) {
				inRange++
			}
		}
		if inRange != rq.chunkSize {
			bad("recvq", "range", "bits in (cum,tail] = %d but chunkSize = %d (cum=%d tail=%d words=%d)", inRange, rq.chunkSize, rq.cumulativeTSN, rq.tailTSN, len(rq.tsnBitmask))
		}
		if rq.chunkSize > 0 && !rq.hasChunk(rq.tailTSN) {
			bad("recvq", "tail-unset", "tailTSN %d is not marked received while %d TSNs are held", rq.tailTSN, rq.chunkSize)
		}
		if rq.chunkSize > 0 && rq.hasChunk(rq.cumulativeTSN+1) && !a.willSendAbort && a.getState() != closed {
			// legal transiently inside handleData before the pop loop, but not at the hooks
			bad("recvq", "unpopped", "cumulativeTSN+1 = %d is marked received but was not popped", rq.cumulativeTSN+1)
		}
	}

	// 5. reassembly queues
	var total uint64
	for sid, s := range a.streams {
		if s.streamIdentifier != sid {
			bad("reasm", "sid", "stream map key %d holds stream %d", sid, s.streamIdentifier)
		}
		s.lock.RLock()
		total += vfCheckReassembly(s.reassemblyQueue, func(key, format string, args ...any) {
			bad("reasm", key, "stream %d: "+format, append([]any{sid}, args...)...)
		})
		// a reader is signalled when isReadable() says so; read() decides by itself what it hands out. If read()
		// would return a message but isReadable() is false, a blocked reader is never woken for it.
		if d := vfDeliverable(s.reassemblyQueue); d != s.reassemblyQueue.isReadable() {
			bad("readable", "mismatch", "stream %d: read() would deliver=%v but isReadable()=%v (nextSSN=%d nextMID=%d)", sid, d, s.reassemblyQueue.isReadable(), s.reassemblyQueue.nextSSN, s.reassemblyQueue.nextMID)
		}
		s.lock.RUnlock()
	}
	_ = total
}

// vfDeliverable mirrors the conditions under which reassemblyQueue.read hands out a message.
func vfDeliverable(r *reassemblyQueue) bool {
	if r.useInterleaving {
		if len(r.unorderedMID) > 0 {
			return true
		}

		return len(r.orderedMID) > 0 && r.orderedMID[0].isComplete() && !sna32GT(r.orderedMID[0].mid, r.nextMID)
	}
	if len(r.unordered) > 0 {
		return true
	}

	return len(r.ordered) > 0 && r.ordered[0].isComplete() && !sna16GT(r.ordered[0].ssn, r.nextSSN)
}

func vfWalkPending(q *pendingQueue) (nBytes, nChunks int, ok bool) {
	add := func(b *pendingBaseQueue) {
		if b == nil {
			return
		}
		for _, c := range b.queue {
			if c != nil {
				nBytes += len(c.userData)
				nChunks++
			}
		}
	}
	switch p := q.policy.(type) {
	case *messagePendingQueuePolicy:
		add(p.unorderedQueue)
		add(p.orderedQueue)

		return nBytes, nChunks, true
	case *interleavingStreamSchedulerPolicy:
		switch sch := p.scheduler.(type) {
		case *roundRobinPendingQueuePolicy:
			for _, b := range sch.streamQueues {
				add(b)
			}

			return nBytes, nChunks, true
		case *weightedFairQueueingPendingQueuePolicy:
			for _, b := range sch.streamQueues {
				add(b)
			}

			return nBytes, nChunks, true
		}
	}

	return 0, 0, false
}

// vfCheckReassembly recounts the bytes reachable from the queue's structures
// and compares with the atomic counter. Caller holds the stream lock.
//
//nolint:gocognit,cyclop
func vfCheckReassembly(r *reassemblyQueue, bad func(key, format string, args ...any)) uint64 {
	seen := map[*chunkPayloadData]bool{}
	var sum uint64
	visit := func(where string, c *chunkPayloadData) {
		if c == nil {
			bad("nil", "nil chunk in %s", where)

			return
		}
		if seen[c] {
			bad("twice", "chunk tsn=%d reachable twice (%s)", c.tsn, where)

			return
		}
		seen[c] = true
		sum += uint64(len(c.userData))
	}
	for i, set := range r.ordered {
		for _, c := range set.chunks {
			visit("ordered", c)
		}
		if i > 0 && !sna16LTE(r.ordered[i-1].ssn, set.ssn) {
			bad("ordered-sort", "ordered sets not sorted by SSN: %d before %d", r.ordered[i-1].ssn, set.ssn)
		}
	}
	for _, set := range r.unordered {
		for _, c := range set.chunks {
			visit("unordered", c)
		}
		if !set.isComplete() {
			bad("unordered-incomplete", "incomplete set in unordered (readable) list")
		}
	}
	for _, c := range r.unorderedChunks {
		visit("unorderedChunks", c)
	}
	inList := map[*chunkSetMID]bool{}
	for i, set := range r.orderedMID {
		inList[set] = true
		for _, c := range set.chunks {
			visit("orderedMID", c)
		}
		if i > 0 && !sna32LT(r.orderedMID[i-1].mid, set.mid) {
			bad("mid-sort", "orderedMID not strictly sorted: %d before %d", r.orderedMID[i-1].mid, set.mid)
		}
		if r.orderedMIDMap[set.mid] != set {
			bad("mid-map", "orderedMID entry mid=%d missing from orderedMIDMap", set.mid)
		}
	}
	for mid, set := range r.orderedMIDMap {
		if !inList[set] {
			bad("mid-map-extra", "orderedMIDMap entry mid=%d not in orderedMID", mid)
		}
	}
	for _, set := range r.unorderedMID {
		for _, c := range set.chunks {
			visit("unorderedMID", c)
		}
		if !set.isComplete() {
			bad("unorderedMID-incomplete", "incomplete set in unorderedMID (readable) list")
		}
	}
	for _, set := range r.unorderedMIDMap {
		for _, c := range set.chunks {
			visit("unorderedMIDMap", c)
		}
	}
	if got := uint64(r.getNumBytes()); got != sum { //nolint:gosec
		bad("nbytes", "byte counter %d != bytes reachable from the queue %d", got, sum)
	}

	return sum
}
