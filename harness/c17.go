//go:build verif

package sctp

// C17 — interleaving is used exactly as negotiated and the stream scheduler is fair.
// (i)/(iii)/(iv) wire monitors live in mon.go (always on);
// (ii) wrong payload / forward-TSN kind => protocol-violation ABORT;
// (v) scheduler property monitor on the real pendingQueue.

import (
	"errors"
	"fmt"
	"math"
	"testing"
	"time"
)

type vfSchedChunk struct {
	c      *chunkPayloadData
	sid    uint16
	seq    int
	popped bool
}

//nolint:gocognit,cyclop,gocyclo,maintidx
func vfSchedProgram(res *vfRes, r *vfRand, policy string) (sig string, nontrivial bool, ok bool) {
	nStreams := 1 + r.Intn(12)
	weights := map[uint16]uint16{}
	wspread := r.Pick(1, 8, 65535)
	for s := 1; s <= nStreams; s++ {
		if policy == "wfq" && r.Intn(4) != 0 {
			weights[uint16(s)] = uint16(1 + r.Intn(wspread)) //nolint:gosec
		}
	}
	var factory InterleavingStreamSchedulerFactory
	switch policy {
	case "rr":
		factory = func() InterleavingStreamScheduler { return newRoundRobinPendingQueuePolicy() }
	case "wfq":
		factory = func() InterleavingStreamScheduler { return newWeightedFairQueueingPendingQueuePolicy(weights) }
	}
	q := newPendingQueue(factory)
	fail := func(key, format string, args ...any) (string, bool, bool) {
		res.violate("C17", "sched/"+policy+"/"+key, "pending queue (%s, %d streams): "+format, append([]any{policy, nStreams}, args...)...)

		return "", false, false
	}
	if policy != "message" {
		if err := q.setInterleaving(true); err != nil {
			return fail("set-interleaving", "setInterleaving(true) on an empty queue failed: %v", err)
		}
	}
	w := func(s uint16) float64 {
		if v, ok := weights[s]; ok && v != 0 {
			return float64(v)
		}

		return 1
	}
	maxSize := r.Pick(1, 64, 1200)
	lmax := 0
	queues := map[uint16][]*vfSchedChunk{} // model: per-stream FIFO (per class for the message policy)
	nQueued, bQueued := 0, 0
	seqs := map[uint16]int{}
	// fairness bookkeeping
	served := map[uint16]float64{}
	since := map[uint16]int{}             // number of pops done when the stream (last) became backlogged
	rrSeen := map[uint16]map[uint16]int{} // for stream i: services of j since i's last service
	lastServed := map[uint16]int{}        // pop index of the stream's last service
	cum := map[uint16]float64{}           // bytes served so far
	hist := map[uint16][][2]float64{}     // (pop index, cumulative bytes)
	nPop := 0
	maxBacklogged := 0
	backloggedPops := 0
	var selected *vfSchedChunk // message policy: message in progress
	nops := 300
	for op := 0; op < nops; op++ {
		doPush := r.Intn(100) < 50 || nQueued == 0
		if op > nops*3/4 {
			doPush = nQueued == 0 && op < nops-20
		}
		if !doPush && nQueued == 0 {
			continue
		}
		if doPush {
			sid := uint16(1 + r.Intn(nStreams)) //nolint:gosec
			if r.Intn(3) == 0 {
				sid = uint16(1 + r.Intn(1+nStreams/3)) //nolint:gosec // a few hot streams
			}
			nfrag := 1
			if r.Intn(3) == 0 {
				nfrag = 1 + r.Intn(5)
			}
			unordered := policy == "message" && r.Intn(3) == 0
			var head *chunkPayloadData
			for f := 0; f < nfrag; f++ {
				size := 1 + r.Intn(maxSize)
				if size > lmax {
					lmax = size
				}
				c := &chunkPayloadData{
					streamIdentifier: sid, userData: make([]byte, size), beginningFragment: f == 0, endingFragment: f == nfrag-1,
					unordered: unordered, head: head, iData: policy != "message",
				}
				if head == nil {
					head = c
				}
				key := sid
				if policy == "message" {
					key = 0
					if unordered {
						key = 1
					}
				}
				sc := &vfSchedChunk{c: c, sid: sid, seq: seqs[key]}
				seqs[key]++
				if len(queues[key]) == 0 {
					served[key] = 0
					since[key] = nPop
					rrSeen[key] = map[uint16]int{}
				}
				queues[key] = append(queues[key], sc)
				q.push(c)
				nQueued++
				bQueued += size
			}
			// switching the mode while chunks are queued must be refused
			if r.Intn(40) == 0 {
				if err := q.setInterleaving(policy == "message"); !errors.Is(err, ErrPendingQueueModeChangeNonEmpty) {
					return fail("mode-switch", "setInterleaving on a non-empty queue returned %v", err)
				}
			}
		} else {
			// the association peeks (possibly repeatedly) and then pops what it peeked
			var c *chunkPayloadData
			for k := 0; k < 1+r.Intn(3); k++ {
				p := q.peek()
				if c != nil && p != c {
					return fail("peek-unstable", "two peeks without a pop returned different chunks")
				}
				c = p
			}
			if c == nil {
				return fail("peek-nil", "peek returned nil with %d chunks queued", nQueued)
			}
			// locate in the model
			var key uint16
			found := false
			for k, ql := range queues {
				if len(ql) > 0 && ql[0].c == c {
					key, found = k, true
				}
			}
			if !found {
				return fail("not-head", "peek returned a chunk of stream %d that is not at the head of its queue (per-stream FIFO broken or chunk unknown)", c.streamIdentifier)
			}
			if err := q.pop(c); err != nil {
				return fail("pop-error", "pop of the peeked chunk failed: %v", err)
			}
			sc := queues[key][0]
			queues[key] = queues[key][1:]
			sc.popped = true
			nQueued--
			bQueued -= len(c.userData)
			nPop++
			// how many streams were backlogged at this pop
			nb := 1
			for k, ql := range queues {
				if k != key && len(ql) > 0 {
					nb++
				}
			}
			if nb > maxBacklogged {
				maxBacklogged = nb
			}
			if nb >= 3 {
				backloggedPops++
			}
			switch policy {
			case "message":
				// message at a time: once a message started, its fragments come first; unordered wins otherwise
				if selected != nil && sc.c.head != selected.c && sc.c != selected.c {
					if selected.c.head == nil && sc.c.head != selected.c {
						return fail("message/interleaved", "a chunk of another message was popped while a fragmented message was in progress")
					}
				}
				if c.beginningFragment && selected == nil && !c.unordered && len(queues[1]) > 0 && queues[1][0].c.beginningFragment {
					return fail("message/unordered-wins", "an ordered message was started although an unordered message was waiting")
				}
				switch {
				case c.endingFragment:
					selected = nil
				case c.beginningFragment:
					selected = sc
				}
			case "rr":
				// Between two consecutive services (pops p1 < p2) of stream i, with i backlogged throughout, every
				// stream j that was already backlogged before p1 and is still backlogged at p2 is served exactly once.
				for i, seen := range rrSeen {
					if i != key {
						seen[key]++
					}
				}
				if p1, ok := lastServed[key]; ok && since[key] < p1 {
					for j, ql := range queues {
						if j == key || len(ql) == 0 || since[j] >= p1 {
							continue
						}
						if n := rrSeen[key][j]; n != 1 {
							return fail("rr/round", "stream %d was served %d time(s) between two consecutive services (pops %d and %d) of stream %d although both stayed backlogged", j, n, p1, nPop, key)
						}
						res.count("c17_rr_rounds_checked", 1)
					}
				}
				lastServed[key] = nPop
				rrSeen[key] = map[uint16]int{}
				cum[key] += float64(len(c.userData))
			case "wfq":
				cum[key] += float64(len(c.userData))
				hist[key] = append(hist[key], [2]float64{float64(nPop), cum[key]})
				cumAt := func(s uint16, t int) float64 {
					v := 0.0
					for _, h := range hist[s] {
						if int(h[0]) <= t {
							v = h[1]
						}
					}

					return v
				}
				for j, ql := range queues {
					if j == key || len(ql) == 0 || len(queues[key]) == 0 {
						continue
					}
					// both continuously backlogged since T
					T := since[key]
					if since[j] > T {
						T = since[j]
					}
					si := cum[key] - cumAt(key, T)
					sj := cum[j] - cumAt(j, T)
					di := si/w(key) - sj/w(j)
					bound := float64(lmax)/w(key) + float64(lmax)/w(j)
					res.count("c17_wfq_pairs_checked", 1)
					if math.Abs(di) > bound+1e-9 {
						return fail("wfq/unfair", "streams %d (weight %.0f) and %d (weight %.0f) both backlogged since pop %d: served %.0f vs %.0f bytes, weight-normalised difference %.2f > bound %.2f (Lmax %d)", key, w(key), j, w(j), T, si, sj, math.Abs(di), bound, lmax)
					}
				}
			}
			if len(queues[key]) == 0 {
				delete(lastServed, key)
			}
		}
		if q.size() != nQueued || q.getNumBytes() != bQueued {
			return fail("counters", "size/bytes %d/%d, model %d/%d", q.size(), q.getNumBytes(), nQueued, bQueued)
		}
	}
	// drain: everything pushed is popped exactly once
	for nQueued > 0 {
		c := q.peek()
		if c == nil {
			return fail("drain-nil", "peek returned nil with %d chunks queued", nQueued)
		}
		found := false
		for k, ql := range queues {
			if len(ql) > 0 && ql[0].c == c {
				queues[k] = ql[1:]
				found = true
			}
		}
		if !found {
			return fail("drain-not-head", "drain: peeked chunk is not at the head of any stream queue")
		}
		if err := q.pop(c); err != nil {
			return fail("drain-pop", "drain: pop failed: %v", err)
		}
		nQueued--
		bQueued -= len(c.userData)
	}
	if q.peek() != nil || q.size() != 0 || q.getNumBytes() != 0 {
		return fail("not-empty", "queue not empty after everything was popped: size %d bytes %d", q.size(), q.getNumBytes())
	}
	wb := "eq"
	if wspread > 1 {
		wb = fmt.Sprintf("w%d", wspread)
	}

	return fmt.Sprintf("%s|s%d|%s|sz%d", policy, vfBucket(int64(nStreams)), wb, maxSize), maxBacklogged >= 3 && backloggedPops >= 20, true
}

func vfRunSchedBatch(spec *vfSpec, res *vfRes) {
	r := vfNewRand(spec.Seed)
	n := int(spec.x("programs", 300))
	for i := 0; i < n; i++ {
		policy := []string{"rr", "wfq", "message"}[r.Intn(3)]
		sig, nt, ok := vfSchedProgram(res, r, policy)
		res.count("c17_sched_programs", 1)
		if !ok {
			break
		}
		if nt {
			res.addSig(sig)
		}
	}
	res.res.Evals = int64(n)
	res.res.Nontrivial = true
	res.res.Sample = map[string]any{"kind": "scheduler-programs", "programs": n, "ops_each": 300, "policies": "round-robin | weighted fair queueing (weights 1..65535) | message-at-a-time"}
}

// ---- (ii) wrong kind => ABORT

func vfRunWrongKind(t *testing.T, spec *vfSpec, res *vfRes) {
	vfRunBubble(t, spec.ID, func(t *testing.T) {
		sim := vfNewSim(t, spec, res)
		if !sim.start() {
			res.inconclusive("handshake failed")
			sim.teardown()
			sim.finalLeakCheck()

			return
		}
		w := sim.newWork()
		for _, sc := range spec.Streams {
			w.addStream(sc, 0)
		}
		time.Sleep(time.Duration(20+sim.rnd.Intn(100)) * time.Millisecond)
		side := int(spec.x("side", 0))
		a := sim.getAssoc(side)
		ti := vfTarget(a)
		pk := vfNewPacket(5000, 5000, ti.vtag)
		what := spec.XS["what"]
		tsn := ti.peerLast + uint32(spec.x("tsn_off", 1)) //nolint:gosec
		switch what {
		case "data":
			if ti.il {
				pk.chunk(vfCtData, 3, vfDataVal(tsn, 9, 0, 53, []byte("plain DATA")))
			} else {
				pk.chunk(vfCtIData, 3, vfIDataVal(tsn, 9, 0, 53, []byte("I-DATA")))
			}
		default:
			if ti.il {
				pk.chunk(vfCtForwardTSN, 0, vfU32(ti.peerLast+1))
			} else {
				pk.chunk(vfCtIForwardTSN, 0, vfU32(ti.peerLast+1))
			}
		}
		mark := sim.net.seq.Load()
		sim.net.inject(side, pk.bytes(true), 0)
		time.Sleep(500 * time.Millisecond)
		sim.quiesce()
		saw := false
		for _, e := range sim.net.events() {
			if e.Seq > mark && e.Kind == vfWrWrite && e.Side == side {
				if e.Pkt == nil {
					e.Pkt = vfDecode(e.Raw)
				}
				for i := range e.Pkt.Chunks {
					c := &e.Pkt.Chunks[i]
					if c.Type == vfCtAbort {
						for _, cs := range c.Causes {
							if cs.Code == 13 {
								saw = true
							}
						}
					}
				}
			}
		}
		res.count("c17_wrong_kind_cases", 1)
		if !saw {
			res.violate("C17", "wrong-kind/no-abort/"+what, "interleaving negotiated=%v: a %s chunk of the wrong kind was not answered with a protocol-violation ABORT", ti.il, what)
		}
		if a.getState() != closed {
			res.violate("C17", "wrong-kind/not-closed/"+what, "association still in state %d after the protocol violation", a.getState())
		}
		sim.apiCall(side, "aclose", 0)
		sim.teardown()
		w.waitReaders(10 * time.Second)
		sim.finalLeakCheck()
		sim.runMonitors(vfMonCfg{})
		res.res.Nontrivial = true
		res.res.Sig = fmt.Sprintf("wrong-kind|%s|il%v", what, ti.il)
		res.res.Sample = map[string]any{"kind": "wrong-kind", "what": what, "interleaving": ti.il, "abort_seen": saw}
	})
}

func vfGenILSpec(idx int, seed uint64) vfSpec {
	r := vfNewRand(vfHash(seed, uint64(idx), 0xC17))
	sp := vfGenTransferSpec("C17", idx, seed^0x17, 0, 50)
	sp.ID = fmt.Sprintf("C17-il-%d", idx)
	sp.Kind = "il-sim"
	// all four option combinations, many concurrent writers
	sp.A.IL, sp.B.IL = idx&1 != 0, idx&2 != 0
	if sp.A.IL {
		sp.A.Sched = []string{"", "rr", "wfq"}[r.Intn(3)]
		if sp.A.Sched == "wfq" {
			sp.A.Weights = []int{1 + r.Intn(8), 1 + r.Intn(8), 1 + r.Intn(100), 1, 1 + r.Intn(1000)}
		}
	}
	n := 3 + r.Intn(8)
	sp.Streams = nil
	for i := 0; i < n; i++ {
		sp.Streams = append(sp.Streams, vfStreamCfg{SID: uint16(i + 1), Dir: i % 2, NMsgs: 10 + r.Intn(25), SizeMode: []string{"mixed", "big", "small"}[r.Intn(3)], Reader: "fast", Unordered: r.Intn(4) == 0}) //nolint:gosec
	}
	// partially reliable streams under loss: the FORWARD-TSN kind must follow the negotiation as well
	if r.Intn(2) == 0 {
		for i := range sp.Streams {
			if r.Intn(2) == 0 {
				sp.Streams[i].RelType, sp.Streams[i].RelVal = ReliabilityTypeRexmit, uint32(r.Intn(2)) //nolint:gosec
			}
		}
		if sp.Link.LossPm < 30 {
			sp.Link.LossPm = r.Pick(30, 80, 150)
		}
		if sp.Link.HealUs == 0 {
			sp.Link.HealUs = int64(r.Pick(10, 20)) * 1000000
		}
	}
	il := sp.A.IL && sp.B.IL
	sp.A.MaxMsg = vfEffMaxMsg(&sp.A, &sp.B, n, il)
	sp.B.MaxMsg = vfEffMaxMsg(&sp.B, &sp.A, n, il)

	return sp
}

func init() { //nolint:gochecknoinits
	vfRegister(&vfProperty{
		id: "C17",
		list: func(tier string, seed uint64, race bool) []vfSpec {
			var out []vfSpec
			nb := vfTierN(tier, 70, 3400)
			ns := vfTierN(tier, 120, 1500)
			nw := vfTierN(tier, 16, 120)
			if race {
				nb, ns, nw = 3, vfTierN(tier, 24, 120), 4
			}
			for i := 0; i < nb; i++ {
				out = append(out, vfSpec{Prop: "C17", Kind: "sched", ID: fmt.Sprintf("C17-sched-%d", i), Seed: vfHash(seed, uint64(i), 0x5c4ed), X: map[string]int64{"programs": 300}})
			}
			for i := 0; i < ns; i++ {
				out = append(out, vfGenILSpec(i, seed))
			}
			for i := 0; i < nw; i++ {
				r := vfNewRand(vfHash(seed, uint64(i), 0x3b))
				sp := vfSpec{Prop: "C17", Kind: "wrong-kind", ID: fmt.Sprintf("C17-wrong-%d", i), Seed: r.Uint64()}
				sp.A, sp.B = vfSampleSides(r, 0)
				sp.A.IL, sp.B.IL = i&1 != 0, i&2 != 0 || i&1 != 0
				sp.A.MTU, sp.B.MTU, sp.A.RecvBuf, sp.B.RecvBuf = 0, 0, 0, 0
				sp.A.MaxMsg, sp.B.MaxMsg = 8000, 8000
				sp.Link = vfLinkCfg{DelayUs: 10000}
				sp.Streams = []vfStreamCfg{{SID: 1, Dir: 0, NMsgs: 30, SizeMode: "mixed", Reader: "fast", GapUs: 3000}, {SID: 2, Dir: 1, NMsgs: 30, SizeMode: "small", Reader: "fast", GapUs: 3000}}
				// where the TSN of the wrong chunk lies: next expected, already received, below the cumulative point,
				// beyond the receive window (the kind is wrong wherever it lies)
				sp.X = map[string]int64{"side": int64((i / 4) % 2), "tsn_off": []int64{1, 0, -5, 100000}[(i+i/4)%4]}
				sp.XS = map[string]string{"what": []string{"data", "fwdtsn"}[(i/8)%2]}
				out = append(out, sp)
			}

			// the peer's first INIT lists other extensions than the INIT the handshake completes with
			nr := vfTierN(tier, 8, 48)
			if race {
				nr = 2
			}
			for i := 0; i < nr; i++ {
				r := vfNewRand(vfHash(seed, uint64(i), 0x17e))
				sp := vfSpec{Prop: "C17", Kind: "init-retry", ID: fmt.Sprintf("C17-retry-%d", i), Seed: r.Uint64()}
				sp.A = vfSideCfg{IL: true, ZC: r.Intn(2) == 0, InitTSN: r.Uint32(), Tag: r.Uint32() | 1}
				sp.Link = vfLinkCfg{DelayUs: int64(r.Pick(1000, 20000))}
				sp.X = map[string]int64{"first_il": int64(i % 2)} // 1: I-DATA listed first, then not; 0: the other way round
				out = append(out, sp)
			}

			return out
		},
		run: func(t *testing.T, spec *vfSpec, res *vfRes) {
			switch spec.Kind {
			case "init-retry":
				vfRunInitRetry(t, spec, res)
			case "sched":
				vfRunSchedBatch(spec, res)
			case "wrong-kind":
				vfRunWrongKind(t, spec, res)
			default:
				out := vfRunTransfer(t, spec, res, vfXferOpts{mon: vfMonDefault(spec), hsProp: "C04"})
				_ = out
				il := spec.A.IL && spec.B.IL
				res.res.Nontrivial = res.has("fragmented") && len(spec.Streams) >= 3
				res.res.Sig = fmt.Sprintf("il-sim|a%v|b%v|%s|n%d", spec.A.IL, spec.B.IL, spec.A.Sched, vfBucket(int64(len(spec.Streams))))
				res.res.Sample = map[string]any{"kind": "il-sim", "il_a": spec.A.IL, "il_b": spec.B.IL, "negotiated": il, "scheduler": spec.A.Sched, "streams": len(spec.Streams), "layout_chunks_checked": res.get("c17_layout_chunks")}
			}
		},
	})
}

// vfRunInitRetry: the endpoint (interleaving enabled locally) answers two INITs of the same peer, the first of which
// "lost" its INIT-ACK. What counts is the INIT the handshake was completed with: I-DATA / I-FORWARD-TSN go out if and
// only if that one listed them.
func vfRunInitRetry(t *testing.T, spec *vfSpec, res *vfRes) {
	vfRunBubble(t, spec.ID, func(t *testing.T) {
		sim := vfNewSim(t, spec, res)
		plain := []byte{vfCtReconfig, vfCtForwardTSN}
		il := []byte{vfCtReconfig, vfCtForwardTSN, vfCtIData, vfCtIForwardTSN}
		first, final := plain, il
		if spec.x("first_il", 0) == 1 {
			first, final = il, plain
		}
		finalIL := spec.x("first_il", 0) == 0
		p, ok := sim.startWithPuppet(vfPuppetCfg{InitTSN: 5000, AutoAck: true, Active: true, FirstExt: first, Ext: final})
		if !ok {
			res.violate("C04", "handshake/puppet", "handshake with a peer that repeats its INIT failed: %v", sim.connErr[0])
			sim.teardownPuppet(p)

			return
		}
		a := sim.A()
		if st, err := a.OpenStream(1, PayloadTypeWebRTCBinary); err == nil {
			for i := 0; i < 4; i++ {
				_, _ = st.WriteSCTP(vfMakeMsg(7, i, 200+i*900), PayloadTypeWebRTCBinary)
			}
		}
		time.Sleep(2 * time.Second)
		nData := 0
		for _, d := range p.received() {
			for i := range d.Chunks {
				c := &d.Chunks[i]
				if !c.isData() {
					continue
				}
				nData++
				if (c.Type == vfCtIData) != finalIL {
					res.violate("C17", "emit/wrong-kind-after-init-retry", "the peer's first INIT listed I-DATA=%v, the INIT the handshake was completed with I-DATA=%v, and the endpoint (interleaving enabled) wrote %s", !finalIL, finalIL, c.kind())
				}
			}
		}
		res.count("c17_init_retry_chunks", int64(nData))
		if md, okm := a.Metadata(); okm && md.MessageInterleavingEnabled != finalIL {
			res.violate("C17", "meta/interleaving-after-init-retry", "Metadata().MessageInterleavingEnabled = %v after a handshake completed with an INIT that listed I-DATA=%v", md.MessageInterleavingEnabled, finalIL)
		}
		sim.teardownPuppet(p)
		sim.finalLeakCheck()
		res.res.Nontrivial = nData > 0
		res.res.Sig = fmt.Sprintf("init-retry|final-il=%v", finalIL)
		res.res.Sample = map[string]any{"kind": "init-retry", "final_init_lists_idata": finalIL, "data_chunks_seen": nData}
	})
}
