//go:build verif

package sctp

// C03 — no inbound bytes can crash, hang or corrupt an endpoint.
// (a) codec layer: random / mutated / structure-aware byte strings through
//     packet.unmarshal, check() and marshal; oracle: no panic, bounded CPU time.
// (b) association layer: hostile packets injected into a live association in
//     every state and several traffic contexts; oracles: survival, no spin
//     (watchdog), M-INV at the post-packet hook, must-ignore packets leave the
//     transfer state untouched and the surrounding transfer still completes
//     exactly, must-abort packets are answered with a protocol-violation ABORT.

import (
	"strings"
	"context"
	"encoding/binary"
	"fmt"
	"syscall"
	"testing"
	"time"
)

func vfCPUTime() time.Duration {
	var ru syscall.Rusage
	if err := syscall.Getrusage(syscall.RUSAGE_SELF, &ru); err != nil {
		return 0
	}

	return time.Duration(ru.Utime.Nano() + ru.Stime.Nano())
}

// ---------------------------------------------------------------- (a) codec layer

func vfCodecFeed(res *vfRes, raw []byte, what string) {
	defer func() {
		if rec := recover(); rec != nil {
			res.violate("C03", "codec/panic/"+what, "panic while decoding a %d-byte %s input: %v (input %x)", len(raw), what, rec, vfHeadBytes(raw))
		}
	}()
	for _, doCsum := range []bool{false, true} {
		p := &packet{}
		if err := p.unmarshal(doCsum, raw); err != nil {
			continue
		}
		for _, c := range p.chunks {
			_, _ = c.check()
		}
		_, _ = p.marshal(doCsum)
		_ = checkPacket(p)
	}
}

func vfMutate(r *vfRand, raw []byte) []byte {
	b := make([]byte, len(raw))
	copy(b, raw)
	if len(b) < 16 {
		return b
	}
	switch r.Intn(8) {
	case 0: // bit flips
		for i := 0; i < 1+r.Intn(4); i++ {
			b[r.Intn(len(b))] ^= 1 << uint(r.Intn(8))
		}
	case 1: // chunk length field edits
		vals := []uint16{0, 3, 4, 5, uint16(len(b) - 12), uint16(len(b) - 11), uint16(len(b) - 13), 65535, 32768} //nolint:gosec
		binary.BigEndian.PutUint16(b[14:], vals[r.Intn(len(vals))])
	case 2: // truncation
		b = b[:12+r.Intn(len(b)-12)]
	case 3: // parameter / cause length edit somewhere in the value
		if len(b) > 24 {
			o := 16 + 4*r.Intn((len(b)-16)/4)
			if o+4 <= len(b) {
				vals := []uint16{0, 1, 3, 4, 5, 65535, uint16(len(b))} //nolint:gosec
				binary.BigEndian.PutUint16(b[o+2:], vals[r.Intn(len(vals))])
			}
		}
	case 4: // chunk type edit
		b[12] = byte(r.Intn(256))
	case 5: // splice: append a copy of the first chunk
		b = append(b, b[12:]...)
	case 6: // random bytes in the value
		for i := 16; i < len(b); i++ {
			if r.Intn(4) == 0 {
				b[i] = byte(r.Uint64())
			}
		}
	default: // count fields (SACK / INIT) to extremes
		if len(b) >= 28 {
			binary.BigEndian.PutUint16(b[24:], uint16(r.Pick(0, 1, 255, 65535))) //nolint:gosec
			binary.BigEndian.PutUint16(b[26:], uint16(r.Pick(0, 1, 255, 65535))) //nolint:gosec
		}
	}
	// half of the mutants get a valid CRC so that they get past the checksum
	if r.Intn(2) == 0 && len(b) >= 12 {
		binary.LittleEndian.PutUint32(b[8:], vfCRC32c(b))
	}

	return b
}

func vfCodecHostileBatch(spec *vfSpec, res *vfRes) {
	r := vfNewRand(spec.Seed)
	n := int(spec.x("n", 20000))
	slow := 0
	for i := 0; i < n; i++ {
		var raw []byte
		what := "random"
		switch r.Intn(3) {
		case 0:
			raw = vfRandBytes(r, r.Intn(200))
			if len(raw) >= 12 && r.Intn(2) == 0 {
				binary.LittleEndian.PutUint32(raw[8:], vfCRC32c(raw))
			}
		case 1:
			what = "mutated"
			g := vfGenerateChunk(r, r.Intn(vfNChunkKinds))
			base, err := vfMarshalPkt([]chunk{g.c}, r.Uint32())
			if err != nil {
				continue
			}
			raw = vfMutate(r, base)
		default:
			what = "structured"
			// well-framed packet with arbitrary chunk type and value
			b := vfNewPacket(uint16(r.Intn(3)*5000), 5000, r.Uint32()) //nolint:gosec
			for k := 0; k < 1+r.Intn(3); k++ {
				types := []byte{0, 1, 2, 3, 4, 5, 6, 7, 8, 9, 10, 11, 14, 64, 130, 192, 194, byte(r.Intn(256))}
				b.chunk(types[r.Intn(len(types))], byte(r.Intn(256)), vfRandBytes(r, r.Intn(48)))
			}
			raw = b.bytes(true)
		}
		t0 := vfCPUTime()
		vfCodecFeed(res, raw, what)
		if d := vfCPUTime() - t0; d > time.Second {
			// re-measure before it is a verdict
			worst := d
			for k := 0; k < 3; k++ {
				t1 := vfCPUTime()
				vfCodecFeed(res, raw, what)
				if dd := vfCPUTime() - t1; dd < worst {
					worst = dd
				}
			}
			if worst > time.Second {
				slow++
				res.violate("C03", "codec/slow/"+what, "decoding a %d-byte %s input takes %v of CPU (input %x)", len(raw), what, worst, vfHeadBytes(raw))
			}
		}
		res.count("c03_codec_inputs", 1)
		if len(raw) >= 16 {
			res.count("c03_codec_past_header", 1)
		}
	}
	res.res.Evals = int64(n)
	res.res.Nontrivial = true
	res.addSig("codec|random")
	res.addSig("codec|mutated")
	res.addSig("codec|structured")
	res.res.Sample = map[string]any{"kind": "codec-hostile", "inputs": n, "classes": "uniform random bytes | mutated real packets (bit flips, length edits, truncation, splice, type edit) | well-framed packets with arbitrary chunk values", "slow": slow}
}

// ---------------------------------------------------------------- (b) association layer

type vfHostile struct {
	name  string
	class string // ignore | abort | free
	raw   []byte
	post  func() string // extra white-box check after the probe ("" = fine)
}

type vfTargetInfo struct {
	vtag              uint32
	il, fwd           bool
	cumAck, nextTSN   uint32
	peerLast, peerTag uint32
	state             uint32
	inflight          int
	genuine           map[string][]byte // first genuine packet of each handshake kind that was delivered to the target
	assoc             *Association
}

func vfTarget(a *Association) vfTargetInfo {
	a.lock.RLock()
	defer a.lock.RUnlock()

	return vfTargetInfo{
		vtag: a.myVerificationTag, il: a.useInterleaving, fwd: a.useForwardTSN || a.useIForwardTSN,
		cumAck: a.cumulativeTSNAckPoint, nextTSN: a.myNextTSN, peerLast: a.peerLastTSN(), peerTag: a.peerVerificationTag,
		state: a.getState(), inflight: a.inflightQueue.size(),
	}
}

//nolint:gocognit,cyclop,maintidx
func vfHostileList(r *vfRand, ti vfTargetInfo) []vfHostile {
	var out []vfHostile
	pk := func() *vfBuilder { return vfNewPacket(5000, 5000, ti.vtag) }
	add := func(name, class string, raw []byte) { out = append(out, vfHostile{name: name, class: class, raw: raw}) }
	est := ti.state == established
	dataKind, otherKind := byte(vfCtData), byte(vfCtIData)
	fwdKind, otherFwd := byte(vfCtForwardTSN), byte(vfCtIForwardTSN)
	if ti.il {
		dataKind, otherKind = vfCtIData, vfCtData
		fwdKind, otherFwd = vfCtIForwardTSN, vfCtForwardTSN
	}
	dataVal := func(kind byte, tsn uint32, sid uint16, data []byte) []byte {
		if kind == vfCtIData {
			return vfIDataVal(tsn, sid, 7, 53, data)
		}

		return vfDataVal(tsn, sid, 7, 53, data)
	}

	// --- framing garbage (ignore in every state)
	base := pk().chunk(vfCtSack, 0, vfSackVal(ti.cumAck, 100000, nil, nil)).bytes(true)
	for _, l := range []uint16{0, 1, 3, 5, 17, 200, 65535} {
		b := append([]byte(nil), base...)
		binary.BigEndian.PutUint16(b[14:], l)
		binary.LittleEndian.PutUint32(b[8:], vfCRC32c(b))
		add(fmt.Sprintf("chunk-len-%d", l), "ignore", b)
	}
	for _, n := range []int{0, 1, 11, 12, 13, 15} {
		if n <= len(base) {
			add(fmt.Sprintf("truncated-%d", n), "ignore", base[:n])
		}
	}
	for _, t := range []byte{12, 13, 15, 63, 127, 191, 255, 0x81} {
		add(fmt.Sprintf("unknown-chunk-%d", t), "ignore", pk().chunk(t, 0, vfRandBytes(r, 8)).bytes(true))
		add(fmt.Sprintf("sack+unknown-chunk-%d", t), "ignore", pk().chunk(vfCtSack, 0, vfSackVal(ti.cumAck, 100000, nil, nil)).chunk(t, 0, nil).bytes(true))
	}
	add("port-zero", "ignore", vfNewPacket(0, 5000, ti.vtag).chunk(vfCtSack, 0, vfSackVal(ti.cumAck+1, 1, nil, nil)).bytes(true))
	add("sack-short", "ignore", pk().chunk(vfCtSack, 0, vfU32(ti.cumAck, 5)).bytes(true))
	add("sack-count-mismatch", "ignore", pk().chunk(vfCtSack, 0, append(vfSackVal(ti.cumAck, 5, nil, nil)[:8], 0, 9, 0, 9)).bytes(true))

	// --- acknowledgements for data never sent / impossible gap blocks (ignore)
	never := ti.nextTSN + uint32(r.Intn(1000)) //nolint:gosec
	add("sack-cum-never-sent", "ignore", pk().chunk(vfCtSack, 0, vfSackVal(never, 1<<20, nil, nil)).bytes(true))
	add("sack-cum-far", "ignore", pk().chunk(vfCtSack, 0, vfSackVal(ti.cumAck+1<<30, 1<<20, nil, nil)).bytes(true))
	add("sack-cum-behind", "ignore", pk().chunk(vfCtSack, 0, vfSackVal(ti.cumAck-uint32(1+r.Intn(100)), 1<<20, nil, nil)).bytes(true)) //nolint:gosec
	gapBeyond := uint16(ti.nextTSN - ti.cumAck + uint32(r.Intn(50)))                                                                //nolint:gosec
	if gapBeyond < 2 {
		gapBeyond = 2
	}
	add("sack-gap-never-sent", "ignore", pk().chunk(vfCtSack, 0, vfSackVal(ti.cumAck, 1<<20, [][2]uint16{{gapBeyond, gapBeyond + 3}}, nil)).bytes(true))
	add("sack-gap-reversed", "ignore", pk().chunk(vfCtSack, 0, vfSackVal(ti.cumAck, 1<<20, [][2]uint16{{5, 2}}, nil)).bytes(true))
	add("sack-gap-zero", "ignore", pk().chunk(vfCtSack, 0, vfSackVal(ti.cumAck, 1<<20, [][2]uint16{{0, 1}}, nil)).bytes(true))
	add("sack-gap-huge", "ignore", pk().chunk(vfCtSack, 0, vfSackVal(ti.cumAck, 1<<20, [][2]uint16{{2, 65535}}, nil)).bytes(true))
	if ti.inflight > 2 {
		// first gap block valid, second one impossible: nothing of it may be applied
		add("sack-gap-valid-then-invalid", "ignore", pk().chunk(vfCtSack, 0, vfSackVal(ti.cumAck, 1<<20, [][2]uint16{{2, 2}, {gapBeyond + 5, gapBeyond + 6}}, nil)).bytes(true))
		// cumulative ack valid but bundled after garbage chunk -> whole packet dropped
		add("sack-valid-after-unknown", "ignore", pk().chunk(0x3f, 0, nil).chunk(vfCtSack, 0, vfSackVal(ti.cumAck+1, 1<<20, nil, nil)).bytes(true))
	}
	cls0 := "ignore"
	if ti.state == shutdownSent || ti.state == shutdownAckSent {
		// a crossed / retransmitted SHUTDOWN is answered whatever its cumulative TSN says (nothing is outstanding)
		cls0 = "free"
	}
	add("shutdown-ack-never-sent", cls0, pk().chunk(vfCtShutdown, 0, vfU32(never)).bytes(true))

	// --- forward TSN at or behind the cumulative point (ignore; a SACK in reply is fine)
	fv := func(cum uint32) []byte { return vfU32(cum) }
	if ti.fwd {
		add("fwdtsn-at-cum", "ignore", pk().chunk(fwdKind, 0, fv(ti.peerLast)).bytes(true))
		add("fwdtsn-behind-cum", "ignore", pk().chunk(fwdKind, 0, fv(ti.peerLast-uint32(1+r.Intn(1000)))).bytes(true)) //nolint:gosec
		add("fwdtsn-half-space-behind", "ignore", pk().chunk(fwdKind, 0, fv(ti.peerLast-(1<<31)+5)).bytes(true))
	}
	add("fwdtsn-short", "ignore", pk().chunk(fwdKind, 0, []byte{1, 2}).bytes(true))

	// --- misplaced handshake chunks
	initVal := func(tag uint32) []byte { return append(vfU32(tag, 100000, 0x00010001, 777), vfTLV(0x8008, []byte{130, 192})...) }
	initAck := vfNewPacket(5000, 5000, ti.vtag).chunk(vfCtInitAck, 0, append(initVal(0x5555), vfTLV(7, []byte("cookie"))...)).bytes(true)
	cls := "ignore"
	if ti.state == cookieWait {
		cls = "free"
	}
	add("init-ack", cls, initAck)
	cls = "ignore"
	if ti.state == cookieEchoed {
		cls = "free"
	}
	add("cookie-ack", cls, pk().chunk(vfCtCookieAck, 0, nil).bytes(true))
	// replays of the peer's genuine handshake packets (late duplicates): once the association is up they change
	// nothing; a duplicate COOKIE-ECHO in ESTABLISHED may be answered with a COOKIE-ACK (RFC 4960 5.2.4 D)
	if ti.state != closed && ti.state != cookieWait && ti.state != cookieEchoed {
		for _, k := range []string{"INIT", "INIT-ACK", "COOKIE-ECHO", "COOKIE-ACK"} {
			raw := ti.genuine[k]
			if raw == nil {
				continue
			}
			cl := "ignore"
			if k == "COOKIE-ECHO" && ti.state == established {
				cl = "free"
			}
			add("replay-genuine-"+k, cl, raw)
		}
	}
	// invalid DATA aimed at a message that is complete but not read yet: a further fragment (fresh TSN far ahead in
	// the window, FSN behind the ending fragment) must not be merged into it
	if ti.il && ti.assoc != nil && est {
		a := ti.assoc
		a.lock.RLock()
		for sid, st := range a.streams {
			st.lock.RLock()
			rq := st.reassemblyQueue
			for _, set := range rq.orderedMID {
				if !set.isComplete() || len(set.chunks) == 0 {
					continue
				}
				mid, sidc, stc := set.mid, sid, st
				lastFSN := set.chunks[len(set.chunks)-1].fragmentSequenceNumber
				nb := 0
				for _, c := range set.chunks {
					nb += len(c.userData)
				}
				for k, fl := range []byte{0, 1} { // middle fragment / another ending fragment
					raw := pk().chunk(vfCtIData, fl, vfIDataVal(ti.peerLast+1000+uint32(len(out)), sidc, mid, lastFSN+1+uint32(k), []byte("zz"))).bytes(true) //nolint:gosec
					out = append(out, vfHostile{name: fmt.Sprintf("idata-extend-complete-message-%d", k), class: "free", raw: raw, post: func() string {
						stc.lock.RLock()
						defer stc.lock.RUnlock()
						for _, s2 := range stc.reassemblyQueue.orderedMID {
							if s2.mid != mid {
								continue
							}
							got := 0
							for _, c := range s2.chunks {
								got += len(c.userData)
							}
							if !s2.isComplete() || got != nb {
								return fmt.Sprintf("stream %d: the complete unread message MID %d (%d bytes) was altered by an I-DATA fragment with FSN behind its ending fragment: now complete=%v, %d bytes", sidc, mid, nb, s2.isComplete(), got)
							}
						}

						return ""
					}})
				}

				break
			}
			st.lock.RUnlock()
		}
		a.lock.RUnlock()
	}
	add("cookie-echo-wrong-cookie", "ignore", pk().chunk(vfCtCookieEcho, 0, []byte("not-the-cookie-you-sent")).bytes(true))
	cls = "ignore"
	if ti.state == closed || ti.state == cookieWait || ti.state == cookieEchoed {
		cls = "free"
	}
	add("init", cls, vfNewPacket(5000, 5000, 0).chunk(vfCtInit, 0, initVal(0x6666)).bytes(true))
	add("init-nonzero-vtag", "ignore", vfNewPacket(5000, 5000, 99).chunk(vfCtInit, 0, initVal(0x6666)).bytes(true))
	add("init-bundled", "ignore", vfNewPacket(5000, 5000, 0).chunk(vfCtInit, 0, initVal(0x6666)).chunk(vfCtCookieAck, 0, nil).bytes(true))
	add("init-zero-tag", "ignore", vfNewPacket(5000, 5000, 0).chunk(vfCtInit, 0, initVal(0)).bytes(true))
	add("init-short", "ignore", vfNewPacket(5000, 5000, 0).chunk(vfCtInit, 0, vfU32(1, 2)).bytes(true))
	if est {
		add("shutdown-ack-in-established", "ignore", pk().chunk(vfCtShutdownAck, 0, nil).bytes(true))
		add("shutdown-complete-in-established", "ignore", pk().chunk(vfCtShutdownComplete, 0, nil).bytes(true))
	}
	add("error-chunk", "ignore", pk().chunk(vfCtError, 0, vfTLV(6, []byte{1, 2, 3, 4})).bytes(true))
	add("error-chunk-bad-cause-len", "ignore", pk().chunk(vfCtError, 0, []byte{0, 6, 0xff, 0xff, 1}).bytes(true))
	add("heartbeat-ack-garbage", "ignore", pk().chunk(vfCtHeartbeatAck, 0, vfTLV(1, vfRandBytes(r, 13))).bytes(true))
	add("heartbeat-ack-overflow-ts", "ignore", pk().chunk(vfCtHeartbeatAck, 0, vfTLV(1, []byte{0xff, 0xff, 0xff, 0xff, 0xff, 0xff, 0xff, 0xff})).bytes(true))
	add("heartbeat-no-info", "ignore", pk().chunk(vfCtHeartbeat, 0, nil).bytes(true))
	add("heartbeat-wrong-param", "ignore", pk().chunk(vfCtHeartbeat, 0, vfTLV(9, []byte{1, 2, 3})).bytes(true))
	add("reconfig-alien-param", "ignore", pk().chunk(vfCtReconfig, 0, vfTLV(0x1234, vfRandBytes(r, 12))).bytes(true))
	add("reconfig-empty", "ignore", pk().chunk(vfCtReconfig, 0, nil).bytes(true))
	add("reconfig-short-reset", "ignore", pk().chunk(vfCtReconfig, 0, vfTLV(13, vfU32(1, 2))).bytes(true))
	add("reconfig-response-unknown-seq", "ignore", pk().chunk(vfCtReconfig, 0, vfTLV(16, vfU32(0xdeadbeef, 1))).bytes(true))

	// --- DATA that must not be stored
	add("data-duplicate-old", "ignore", pk().chunk(dataKind, 3, dataVal(dataKind, ti.peerLast-uint32(r.Intn(5)), 1, []byte("dup"))).bytes(true)) //nolint:gosec
	add("data-beyond-window", "ignore", pk().chunk(dataKind, 3, dataVal(dataKind, ti.peerLast+50000+uint32(r.Intn(1000)), 1, []byte("far"))).bytes(true)) //nolint:gosec
	add("data-half-space", "ignore", pk().chunk(dataKind, 3, dataVal(dataKind, ti.peerLast+(1<<31), 1, []byte("half"))).bytes(true))
	add("data-short-header", "ignore", pk().chunk(dataKind, 3, vfU32(ti.peerLast+1)).bytes(true))

	// --- must abort (in the data-receiving states)
	cls = "free"
	if est {
		cls = "abort"
	}
	add("wrong-data-kind", cls, pk().chunk(otherKind, 3, dataVal(otherKind, ti.peerLast+1, 1, []byte("wrong kind"))).bytes(true))
	if ti.fwd {
		add("wrong-fwdtsn-kind", cls, pk().chunk(otherFwd, 0, fv(ti.peerLast+1)).bytes(true))
	}

	// --- forged but plausible (survival + invariants only)
	if ti.inflight > 0 {
		add("forged-sack-one", "free", pk().chunk(vfCtSack, 0, vfSackVal(ti.cumAck+1, 1<<20, nil, nil)).bytes(true))
		add("forged-sack-zero-window", "free", pk().chunk(vfCtSack, 0, vfSackVal(ti.cumAck, 0, nil, []uint32{ti.cumAck, ti.cumAck, 7})).bytes(true))
		add("forged-sack-gap", "free", pk().chunk(vfCtSack, 0, vfSackVal(ti.cumAck, 1<<20, [][2]uint16{{2, 2}}, nil)).bytes(true))
	}
	add("forged-data-new", "free", pk().chunk(dataKind, 3, dataVal(dataKind, ti.peerLast+1, 77, []byte("forged"))).bytes(true))
	add("forged-data-gap", "free", pk().chunk(dataKind, 2, dataVal(dataKind, ti.peerLast+9, 78, vfRandBytes(r, 100))).bytes(true))
	add("forged-data-mid-fragment", "free", pk().chunk(dataKind, 0, dataVal(dataKind, ti.peerLast+20, 78, vfRandBytes(r, 100))).bytes(true))
	add("forged-data-empty", "free", pk().chunk(dataKind, 3, dataVal(dataKind, ti.peerLast+2, 79, nil)).bytes(true))
	if ti.fwd {
		var fw []byte
		if ti.il {
			fw = append(vfU32(ti.peerLast+5), 0, 77, 0, 0, 0, 0, 0, 3)
		} else {
			fw = append(vfU32(ti.peerLast+5), 0, 77, 0, 3)
		}
		add("forged-fwdtsn-ahead", "free", pk().chunk(fwdKind, 0, fw).bytes(true))
		add("forged-fwdtsn-far", "free", pk().chunk(fwdKind, 0, vfU32(ti.peerLast+1<<28)).bytes(true))
		many := vfU32(ti.peerLast + 6)
		for i := 0; i < 300; i++ {
			if ti.il {
				many = append(many, byte(i>>8), byte(i), 0, byte(i&1), 0, 0, 0, byte(i))
			} else {
				many = append(many, byte(i>>8), byte(i), 0, byte(i))
			}
		}
		add("forged-fwdtsn-many-streams", "free", pk().chunk(fwdKind, 0, many).bytes(true))
	}
	add("forged-heartbeat", "free", pk().chunk(vfCtHeartbeat, 0, vfTLV(1, vfRandBytes(r, 16))).bytes(true))
	add("forged-reset-request", "free", pk().chunk(vfCtReconfig, 0, vfTLV(13, append(vfU32(ti.peerLast, 0, ti.peerLast), 0, 1, 0, 77))).bytes(true))
	add("forged-reset-request-future", "free", pk().chunk(vfCtReconfig, 0, vfTLV(13, append(vfU32(ti.peerLast+1, 0, ti.peerLast+1000), 0, 1))).bytes(true))
	add("forged-shutdown", "free", pk().chunk(vfCtShutdown, 0, vfU32(ti.cumAck)).bytes(true))
	add("forged-abort", "free", pk().chunk(vfCtAbort, 0, vfTLV(12, []byte("bye"))).bytes(true))

	return out
}

var vfStateNames = map[uint32]string{ //nolint:gochecknoglobals
	closed: "closed", cookieWait: "cookieWait", cookieEchoed: "cookieEchoed", established: "established",
	shutdownPending: "shutdownPending", shutdownSent: "shutdownSent", shutdownReceived: "shutdownReceived", shutdownAckSent: "shutdownAckSent",
}

// vfReachState drives side 0 into the wanted state and freezes the link. It
// returns false if the state could not be reached.
//
//nolint:gocognit,cyclop
func vfReachState(s *vfSim, w **vfWork, want uint32, ctxKind string) bool {
	spec := s.spec
	switch want {
	case cookieWait, cookieEchoed, closed:
		gen := &vfScriptRand{fallback: vfNewRand(spec.Seed ^ 0xabc)}
		globalMathRandomGenerator = gen
		gen.push(spec.A.InitTSN, spec.A.Tag|1)
		holdKind := "INIT"
		if want == cookieEchoed {
			holdKind = "COOKIE-ECHO"
		}
		s.net.onWrite = func(side int, raw []byte) {
			if side == 0 && vfFirstChunkKind(raw) == holdKind {
				s.net.freeze()
			}
		}
		if want == closed {
			// a server-side association that has seen nothing yet
			go func() {
				defer close(s.connDone[0])
				opts := vfOptsFor(&spec.A, s.net.conns[0], s.sink, "vfA")
				so := make([]ServerOption, len(opts))
				for i, o := range opts {
					so[i] = o
				}
				a, err := ServerWithOptions(so...)
				s.mu.Lock()
				s.connErr[0] = err
				if a != nil {
					s.assoc[0] = a
				}
				s.mu.Unlock()
			}()
			close(s.connDone[1])
			s.quiesce()
			// the association object is only reachable through the hook registry once it gathered
			time.Sleep(10 * time.Millisecond)

			return s.getAssoc(0) != nil
		}
		gen.push(spec.B.InitTSN, spec.B.Tag|1)
		for side := 0; side < 2; side++ {
			side := side
			go func() {
				defer close(s.connDone[side])
				cfg := &spec.A
				if side == 1 {
					cfg = &spec.B
				}
				opts := vfOptsFor(cfg, s.net.conns[side], s.sink, fmt.Sprintf("vf%c", 'A'+side))
				var a *Association
				var err error
				if side == 0 {
					co := make([]ClientOption, len(opts))
					for i, o := range opts {
						co[i] = o
					}
					a, err = ClientWithOptions(co...)
				} else {
					so := make([]ServerOption, len(opts))
					for i, o := range opts {
						so[i] = o
					}
					a, err = ServerWithOptions(so...)
				}
				s.mu.Lock()
				s.connErr[side] = err
				if a != nil {
					s.assoc[side] = a
				}
				s.mu.Unlock()
			}()
			s.quiesce()
		}
		time.Sleep(100 * time.Millisecond)
		s.quiesce()
		a := s.getAssoc(0)

		return a != nil && a.getState() == want
	}
	// states reached from established
	if !s.start() {
		return false
	}
	*w = s.newWork()
	for _, sc := range spec.Streams {
		(*w).addStream(sc, 0)
	}
	a := s.A()
	switch want {
	case established:
		switch ctxKind {
		case "idle":
			(*w).waitWriters(time.Minute)
			(*w).waitDrained(2 * time.Minute)
			s.net.freeze()
		case "reset":
			time.Sleep(time.Duration(20+s.rnd.Intn(60)) * time.Millisecond)
			s.net.freeze()
			if st, _ := (*w).reg[0].get(1); st != nil {
				_ = st.Close()
			}
		default: // inflight / zerowin: freeze in the middle of the transfer
			time.Sleep(time.Duration(30+s.rnd.Intn(200)) * time.Millisecond)
			s.net.freeze()
		}
	case shutdownPending, shutdownSent:
		if want == shutdownSent {
			(*w).waitWriters(time.Minute)
			(*w).waitDrained(2 * time.Minute)
		} else {
			time.Sleep(time.Duration(30+s.rnd.Intn(100)) * time.Millisecond)
		}
		s.net.freeze()
		s.quiesce()
		if want == shutdownPending && !(a.inflightQueue.size() > 0 || a.pendingQueue.size() > 0) {
			return false
		}
		go func() {
			ctx, cancel := context.WithTimeout(context.Background(), time.Hour)
			defer cancel()
			ev := s.apiCall(0, "shutdown", 0)
			err := a.Shutdown(ctx)
			s.apiRet(ev, 0, err)
		}()
	case shutdownReceived, shutdownAckSent:
		if want == shutdownAckSent {
			(*w).waitWriters(time.Minute)
			(*w).waitDrained(2 * time.Minute)
		} else {
			time.Sleep(time.Duration(30+s.rnd.Intn(100)) * time.Millisecond)
		}
		s.net.freezeDir(0) // hold what side 0 writes; side 1's SHUTDOWN still arrives
		s.quiesce()
		if want == shutdownReceived && !(a.inflightQueue.size() > 0 || a.pendingQueue.size() > 0) {
			return false
		}
		b := s.B()
		go func() {
			ctx, cancel := context.WithTimeout(context.Background(), time.Hour)
			defer cancel()
			ev := s.apiCall(1, "shutdown", 0)
			err := b.Shutdown(ctx)
			s.apiRet(ev, 0, err)
		}()
		time.Sleep(50 * time.Millisecond)
		s.net.freeze()
	}
	s.quiesce()

	return a.getState() == want
}

//nolint:gocognit,cyclop
func vfRunHostile(t *testing.T, spec *vfSpec, res *vfRes) {
	vfRunBubble(t, spec.ID, func(t *testing.T) {
		sim := vfNewSim(t, spec, res)
		sim.invEvery = 1
		want := uint32(spec.x("state", int64(established))) //nolint:gosec
		ctxKind := spec.XS["ctx"]
		mode := spec.XS["mode"] // ignore | abort | free
		var w *vfWork
		ok := vfReachState(sim, &w, want, ctxKind)
		finish := func() {
			sim.net.dropQueued()
			sim.net.release()
			sim.teardown()
			if w != nil {
				w.waitReaders(10 * time.Second)
			}
			sim.finalLeakCheck()
		}
		if !ok {
			res.inconclusive(fmt.Sprintf("state %s/%s not reached", vfStateNames[want], ctxKind))
			finish()

			return
		}
		a := sim.getAssoc(0)
		r := vfNewRand(spec.Seed ^ 0xbad)
		// from here on the structural invariant walker speaks for C03: an inconsistency it finds in the target after
		// hostile input is state corrupted by that input
		res.mu.Lock()
		res.rewrite = func(prop, key string) (string, string) {
			if strings.HasPrefix(key, "inv/") {
				return "C03", "corrupt/" + key
			}

			return prop, key
		}
		res.mu.Unlock()
		ti := vfTarget(a)
		ti.assoc = a
		ti.genuine = map[string][]byte{}
		for _, e := range sim.net.events() {
			if e.Kind == vfWrDeliver && e.Side == 0 {
				if k := vfFirstChunkKind(e.Raw); ti.genuine[k] == nil {
					ti.genuine[k] = e.Raw
				}
			}
		}
		list := vfHostileList(r, ti)
		var picked []vfHostile
		for _, h := range list {
			if h.class == mode {
				picked = append(picked, h)
			}
		}
		// shuffle deterministically
		for i := len(picked) - 1; i > 0; i-- {
			j := r.Intn(i + 1)
			picked[i], picked[j] = picked[j], picked[i]
		}
		if mode == "abort" && len(picked) > 0 {
			picked = picked[:1]
		}
		onlyIgnore := mode == "ignore"
		var probed []string
		for _, h := range picked {
			probed = append(probed, h.name)
			if a.getState() == closed {
				break
			}
			// refresh fields that depend on the current state of the target
			cpu0 := vfCPUTime()
			pr := sim.probe(0, h.raw, false)
			cpu := vfCPUTime() - cpu0
			res.count("c03_assoc_probes", 1)
			cell := fmt.Sprintf("%s|%s|%s|%s", vfStateNames[want], ctxKind, h.class, vfFirstChunkKind(h.raw))
			if pr.processed {
				res.addSig(cell)
				res.count("c03_reached_handler", 1)
			}
			if cpu > 2*time.Second {
				res.violate("C03", "assoc/slow/"+h.name, "state %s/%s: processing hostile packet %s took %v of CPU", vfStateNames[want], ctxKind, h.name, cpu)
			}
			if h.post != nil {
				res.count("c03_post_checks", 1)
				if msg := h.post(); msg != "" {
					res.violate("C03", "assoc/data-tampered/"+h.name, "state %s/%s: %s", vfStateNames[want], ctxKind, msg)
				}
			}
			switch h.class {
			case "ignore":
				if pr.diff != "" || pr.closed {
					res.violate("C03", "assoc/ignore-changed/"+h.name, "state %s/%s: invalid packet %s must be dropped without touching transfer state, but: closed=%v %s", vfStateNames[want], ctxKind, h.name, pr.closed, pr.diff)
				}
				for _, rep := range pr.replies {
					if rep.Pkt == nil {
						rep.Pkt = vfDecode(rep.Raw)
					}
					if rep.Pkt.has(vfCtAbort) && h.name != "init-zero-tag" {
						res.violate("C03", "assoc/ignore-aborted/"+h.name, "state %s/%s: invalid packet %s was answered with ABORT", vfStateNames[want], ctxKind, h.name)
					}
				}
			case "abort":
				sawAbort := false
				for _, rep := range pr.replies {
					if rep.Pkt == nil {
						rep.Pkt = vfDecode(rep.Raw)
					}
					for i := range rep.Pkt.Chunks {
						c := &rep.Pkt.Chunks[i]
						if c.Type == vfCtAbort {
							for _, cs := range c.Causes {
								if cs.Code == 13 {
									sawAbort = true
								}
							}
						}
					}
				}
				res.count("c03_abort_cases", 1)
				if !sawAbort {
					res.violate("C03", "assoc/no-abort/"+h.name, "state %s/%s: %s must be answered with a protocol-violation ABORT; replies: %d", vfStateNames[want], ctxKind, h.name, len(pr.replies))
				}
				sim.quiesce()
				if a.getState() != closed {
					res.violate("C03", "assoc/abort-not-closed/"+h.name, "state %s/%s: association still in state %d after sending the protocol-violation ABORT", vfStateNames[want], ctxKind, a.getState())
				}
			}
		}
		// after must-ignore probes on an established association the surrounding transfer completes exactly
		if onlyIgnore && want == established && w != nil && a.getState() == established {
			sim.net.release()
			sim.net.healNow()
			w.resumeReaders()
			drained := w.waitWriters(5*time.Minute) && w.waitDrained(sim.healBound())
			if !drained {
				res.violate("C03", "assoc/transfer-stalled-after-ignore", "state established/%s: after %d must-ignore packets the surrounding transfer did not complete", ctxKind, len(picked))
			}
			sim.quiesce()
			vfFinalAccounting(sim, w, drained)
			sim.teardown()
			w.waitReaders(10 * time.Second)
			sim.finalLeakCheck()
			for _, run := range w.allRuns() {
				// delivery violations after hostile input are C03's: data already delivered / in transit was affected
				before := res.nviol()
				vfCheckDelivery(res, "C03", run, drained)
				_ = before
			}
			res.count("c03_transfers_verified", 1)
		} else {
			finish()
		}
		res.res.Nontrivial = res.get("c03_reached_handler") > 0
		res.res.Sample = map[string]any{"kind": "hostile", "state": vfStateNames[want], "context": ctxKind, "mode": mode, "probes": res.get("c03_assoc_probes"), "reached_handler": res.get("c03_reached_handler"), "roles": spec.Roles, "names": probed}
	})
}

func vfGenHostileSpecs(tier string, seed uint64, race bool) []vfSpec {
	var out []vfSpec
	states := []uint32{closed, cookieWait, cookieEchoed, established, shutdownPending, shutdownSent, shutdownReceived, shutdownAckSent}
	ctxs := []string{"idle", "inflight", "reset", "zerowin", "unread"}
	reps := vfTierN(tier, 4, 40)
	if race {
		reps = 1
	}
	idx := 0
	for rep := 0; rep < reps; rep++ {
		for _, st := range states {
			for _, cx := range ctxs {
				if st != established && cx != "inflight" {
					continue
				}
				for _, mode := range []string{"ignore", "abort", "free"} {
					if mode == "abort" && st != established {
						continue
					}
					n := 1
					if mode == "abort" {
						n = 3
					}
					if cx == "unread" && mode == "free" {
						n = 4 // the probes aimed at complete unread messages live here
					}
					for k := 0; k < n; k++ {
						r := vfNewRand(vfHash(seed, uint64(idx), 0xC03))
						sp := vfSpec{Prop: "C03", Kind: "hostile", ID: fmt.Sprintf("C03-hostile-%d", idx), Seed: r.Uint64()}
						sp.A, sp.B = vfSampleSides(r, 100)
						sp.A.MTU, sp.B.MTU = 0, 0
						sp.Link = vfLinkCfg{DelayUs: 10000, LossPm: r.Pick(0, 50, 100)}
						il := sp.A.IL && sp.B.IL
						if cx == "zerowin" {
							sp.B.RecvBuf, sp.A.RecvBuf = 8192, 8192
						}
						if cx == "unread" {
							// interleaving on, the target's readers paused: complete messages wait unread in its queues
							sp.A.IL, sp.B.IL = true, true
							sp.A.RecvBuf, sp.B.RecvBuf = 0, 0 // room for every stream's largest message while nobody reads
							il = true
						}
						for i := 0; i < 3; i++ {
							sc := vfStreamCfg{SID: uint16(i + 1), Dir: i % 2, NMsgs: 30 + r.Intn(40), SizeMode: "mixed", Reader: "fast"} //nolint:gosec
							if st == shutdownPending || st == shutdownReceived {
								sc.NMsgs = 400 // data must still be outstanding when the state is entered
							}
							if st == shutdownReceived {
								sc.Dir = 0 // the peer must have nothing outstanding to be able to send SHUTDOWN while our packets are held
							}
							if cx == "zerowin" {
								sc.Reader = "slow"
								sc.SizeMode = "small"
							}
							if r.Intn(3) == 0 {
								sc.RelType, sc.RelVal = ReliabilityTypeRexmit, 1
							}
							if cx == "unread" {
								sc.Dir = 1
								sc.Reader = "pause"
								sc.NMsgs = 10 + r.Intn(10)
								sc.RelType, sc.RelVal = 0, 0
							}
							sp.Streams = append(sp.Streams, sc)
						}
						sp.A.MaxMsg = vfEffMaxMsg(&sp.A, &sp.B, 2, il)
						sp.B.MaxMsg = vfEffMaxMsg(&sp.B, &sp.A, 1, il)
						sp.X = map[string]int64{"state": int64(st)}
						sp.XS = map[string]string{"ctx": cx, "mode": mode}
						if st != closed && st != cookieWait && st != cookieEchoed && vfHash(seed, uint64(idx), 0xcc)%2 == 1 {
							// both sides connect as clients: the target then owns a cookie and has received a genuine COOKIE-ECHO
							sp.Roles = "cc"
						}
						out = append(out, sp)
						idx++
					}
				}
			}
		}
	}

	return out
}

func init() { //nolint:gochecknoinits
	vfRegister(&vfProperty{
		id: "C03",
		list: func(tier string, seed uint64, race bool) []vfSpec {
			var out []vfSpec
			nb := vfTierN(tier, 14, 1000)
			if race {
				nb = vfTierN(tier, 3, 30)
			}
			for i := 0; i < nb; i++ {
				out = append(out, vfSpec{Prop: "C03", Kind: "codec-hostile", ID: fmt.Sprintf("C03-codec-%d", i), Seed: vfHash(seed, uint64(i), 0xf022), X: map[string]int64{"n": 20000}})
			}
			out = append(out, vfGenHostileSpecs(tier, seed, race)...)

			return out
		},
		run: func(t *testing.T, spec *vfSpec, res *vfRes) {
			if spec.Kind == "codec-hostile" {
				vfCodecHostileBatch(spec, res)

				return
			}
			vfRunHostile(t, spec, res)
		},
	})
}
