//go:build verif

package sctp

// C19 — timer laws: bounded RTO and back-off, bounded handshake retries, prompt acks.

import (
	"bytes"
	"context"
	"fmt"
	"math"
	"sort"
	"sync"
	"testing"
	"testing/synctest"
	"time"
)

// ---------------------------------------------------------------- (i) RTO manager, sample sequences

func vfRTOSample(r *vfRand, class int) float64 {
	switch class {
	case 0:
		return 0
	case 1:
		return float64(r.Intn(1000)) / 1000 // sub-millisecond
	case 2:
		return float64(1 + r.Intn(300)) // LAN/WAN
	case 3:
		return float64(500 + r.Intn(5000))
	case 4:
		return float64(r.Intn(200000)) // up to minutes
	case 5:
		return 1e12
	case 6:
		return math.MaxFloat64 / 1e3
	case 7:
		return float64(r.Uint64()>>11) / float64(1<<20)
	default:
		return float64(r.Intn(3)) * 1e9
	}
}

func vfRunRTOSequences(_ *testing.T, spec *vfSpec, res *vfRes) {
	r := vfNewRand(spec.Seed)
	nSeq := int(spec.x("seqs", 200))
	sigs := map[string]bool{}
	for q := 0; q < nSeq; q++ {
		rtoMax := float64(r.Pick(0, 0, 1000, 1001, 1500, 5000, 60000, 120000, 10000000))
		effMax := rtoMax
		if effMax == 0 {
			effMax = 60000
		}
		m := newRTOManager(rtoMax)
		if v := m.getRTO(); v != 1000 {
			res.violate("C19", "rto/initial", "initial RTO is %v ms, RFC 4960 RTO.Initial is 1000", v)
		}
		// reference model (RFC 4960 6.3.1), kept independently
		var srtt, rttvar float64
		first := true
		n := 3 + r.Intn(40)
		profile := r.Intn(4) // 0: one class, 1: alternating extremes, 2: random classes, 3: ramp
		cls := r.Intn(9)
		var hiLo, sawClamp [2]bool
		for i := 0; i < n; i++ {
			var rtt float64
			switch profile {
			case 0:
				rtt = vfRTOSample(r, cls)
			case 1:
				rtt = vfRTOSample(r, []int{0, 5, 1, 6, 2, 4}[i%6])
			case 2:
				rtt = vfRTOSample(r, r.Intn(9))
			default:
				rtt = float64(i*i) * float64(1+cls)
			}
			got := m.setNewRTT(rtt)
			if first {
				srtt, rttvar, first = rtt, rtt/2, false
				if rtt == 0 {
					first = true // the implementation keys "first measurement" on srtt == 0; a 0 sample leaves it there
				}
			} else {
				rttvar = 0.75*rttvar + 0.25*math.Abs(srtt-rtt)
				srtt = 0.875*srtt + 0.125*rtt
			}
			want := math.Min(math.Max(srtt+4*rttvar, 1000), effMax)
			rto := m.getRTO()
			res.count("c19_rto_samples", 1)
			if math.IsNaN(rto) || math.IsInf(rto, 0) || rto < 1000 || rto > effMax {
				res.violate("C19", "rto/out-of-bounds", "after RTT sample %v (sample #%d, RTO.max %v): RTO = %v ms, outside [1000, %v]", rtt, i, effMax, rto, effMax)
			}
			if !(math.Abs(rto-want) <= 1e-9*math.Max(1, math.Abs(want))) {
				res.violate("C19", "rto/model", "after RTT sample %v (#%d): RTO = %v ms, RFC 4960 6.3.1 gives %v", rtt, i, rto, want)
			}
			if !(math.Abs(got-srtt) <= 1e-9*math.Max(1, math.Abs(srtt))) && !math.IsInf(srtt, 0) {
				res.violate("C19", "rto/srtt", "after RTT sample %v (#%d): SRTT = %v, RFC 4960 6.3.1 gives %v", rtt, i, got, srtt)
			}
			if rto == 1000 {
				sawClamp[0] = true
			}
			if rto == effMax {
				sawClamp[1] = true
			}
			if rtt > effMax {
				hiLo[1] = true
			} else {
				hiLo[0] = true
			}
			// back-off law for the current RTO
			prev := 0.0
			for k := uint(0); k < 70; k += 1 + uint(r.Intn(3)) {
				v := calculateNextTimeout(rto, k, effMax)
				wantV := rto * math.Pow(2, float64(k))
				if wantV > effMax || k >= 62 {
					wantV = effMax
				}
				res.count("c19_backoff_evals", 1)
				if v != wantV || v < prev || v > effMax {
					res.violate("C19", "backoff/law", "calculateNextTimeout(rto=%v, n=%d, max=%v) = %v, expected min(rto*2^n, max) = %v", rto, k, effMax, v, wantV)
				}
				prev = v
			}
		}
		m.reset()
		if v := m.getRTO(); v != 1000 {
			res.violate("C19", "rto/reset", "RTO after reset is %v ms", v)
		}
		sigs[fmt.Sprintf("rto|max%v|p%d|lo%v|hi%v|cmin%v|cmax%v", effMax, profile, hiLo[0], hiLo[1], sawClamp[0], sawClamp[1])] = true
	}
	for s := range sigs {
		res.addSig(s)
	}
	res.res.Evals = res.get("c19_rto_samples")
	res.res.Nontrivial = true
	res.res.Sample = map[string]any{"kind": "rto-seq", "sequences": nSeq, "samples": res.get("c19_rto_samples"), "backoff_evals": res.get("c19_backoff_evals")}
}

// ---------------------------------------------------------------- (ii) timer programs against an exact model

type vfTimerCb struct {
	T    time.Duration
	Kind string // timeout | failure
	N    uint
}

type vfTimerObs struct {
	mu  sync.Mutex
	t0  time.Time
	cbs []vfTimerCb
}

func (o *vfTimerObs) onRetransmissionTimeout(_ int, n uint) {
	o.mu.Lock()
	o.cbs = append(o.cbs, vfTimerCb{T: time.Since(o.t0), Kind: "timeout", N: n})
	o.mu.Unlock()
}

func (o *vfTimerObs) onRetransmissionFailure(int) {
	o.mu.Lock()
	o.cbs = append(o.cbs, vfTimerCb{T: time.Since(o.t0), Kind: "failure"})
	o.mu.Unlock()
}

func (o *vfTimerObs) onAckTimeout() {
	o.mu.Lock()
	o.cbs = append(o.cbs, vfTimerCb{T: time.Since(o.t0), Kind: "ack"})
	o.mu.Unlock()
}

// exact model of one retransmission timer driven by a sequential program
type vfTimerModel struct {
	state      int // 0 stopped 1 started 2 closed
	rto        float64
	n          uint
	next       time.Duration
	maxRetrans uint
	rtoMax     float64
	cbs        []vfTimerCb
}

func (m *vfTimerModel) interval() time.Duration {
	v := m.rto * math.Pow(2, float64(m.n))
	if v > m.rtoMax || m.n >= 31 {
		v = m.rtoMax
	}

	return time.Duration(v) * time.Millisecond
}

// advance fires every expiry with time <= now
func (m *vfTimerModel) advance(now time.Duration) {
	for m.state == 1 && m.next <= now {
		at := m.next
		m.n++
		if m.maxRetrans == 0 || m.n <= m.maxRetrans {
			m.cbs = append(m.cbs, vfTimerCb{T: at, Kind: "timeout", N: m.n})
			m.next = at + m.interval()
		} else {
			m.state = 0
			m.cbs = append(m.cbs, vfTimerCb{T: at, Kind: "failure"})
		}
	}
}

func vfRunTimerPrograms(t *testing.T, spec *vfSpec, res *vfRes) {
	nProg := int(spec.x("programs", 20))
	r := vfNewRand(spec.Seed)
	for q := 0; q < nProg; q++ {
		seed := r.Uint64()
		vfRunBubble(t, fmt.Sprintf("%s-%d", spec.ID, q), func(t *testing.T) {
			pr := vfNewRand(seed)
			obs := &vfTimerObs{t0: time.Now()}
			maxRetrans := uint(pr.Pick(0, 0, 1, 2, 5, 8)) //nolint:gosec
			rtoMax := float64(pr.Pick(0, 1000, 3000, 60000))
			tm := newRTXTimer(7, obs, maxRetrans, rtoMax)
			if rtoMax == 0 {
				rtoMax = 60000
			}
			model := &vfTimerModel{maxRetrans: maxRetrans, rtoMax: rtoMax}
			now := func() time.Duration { return time.Since(obs.t0) }
			nOps := 10 + pr.Intn(40)
			expiries, coincide := 0, 0
			for i := 0; i < nOps; i++ {
				// choose the instant of the next operation: random, or exactly on the next expiry, or 1 ns around it
				var d time.Duration
				switch pr.Intn(5) {
				case 0:
					d = 0
				case 1, 2:
					d = time.Duration(pr.Intn(8000)) * time.Millisecond
				default:
					if model.state == 1 {
						d = model.next - now() + time.Duration(pr.Intn(3)-1)
						if d < 0 {
							d = 0
						}
						coincide++
					} else {
						d = time.Duration(pr.Intn(3000)) * time.Millisecond
					}
				}
				time.Sleep(d)
				synctest.Wait() // expiries due at this instant run before the operation
				model.advance(now())
				switch op := pr.Intn(10); {
				case op < 5:
					rto := float64(pr.Pick(1, 10, 1000, 1500, 4000, 70000))
					got := tm.start(rto)
					want := model.state == 0
					if want {
						model.state, model.rto, model.n = 1, rto, 0
						model.next = now() + model.interval()
					}
					if got != want {
						res.violate("C19", "timer/start-result", "start() returned %v in model state %d", got, model.state)
					}
				case op < 8:
					tm.stop()
					if model.state == 1 {
						model.state = 0
					}
				case op == 8 && i > nOps-4:
					tm.close()
					model.state = 2
				default:
					if tm.isRunning() != (model.state == 1) {
						res.violate("C19", "timer/is-running", "isRunning() = %v in model state %d at %v", tm.isRunning(), model.state, now())
					}
				}
			}
			time.Sleep(time.Duration(pr.Intn(200)) * time.Second)
			synctest.Wait()
			model.advance(now())
			tm.close()
			time.Sleep(time.Hour)
			synctest.Wait()
			obs.mu.Lock()
			got := append([]vfTimerCb(nil), obs.cbs...)
			obs.mu.Unlock()
			expiries = len(model.cbs)
			res.count("c19_timer_programs", 1)
			res.count("c19_timer_expiries", int64(expiries))
			if len(got) != len(model.cbs) {
				res.violate("C19", "timer/callback-count", "retransmission timer made %d callbacks, the model of the program makes %d (maxRetrans %d, RTO.max %v)", len(got), len(model.cbs), maxRetrans, rtoMax)
				res.witness("got %v", got)
				res.witness("want %v", model.cbs)
			} else {
				for i := range got {
					if got[i] != model.cbs[i] {
						res.violate("C19", "timer/callback-differs", "callback #%d is %+v, the model says %+v (maxRetrans %d, RTO.max %v)", i, got[i], model.cbs[i], maxRetrans, rtoMax)
						res.witness("got %v", got)
						res.witness("want %v", model.cbs)

						break
					}
				}
			}
			if expiries >= 3 {
				res.addSig(fmt.Sprintf("rtx|mr%d|max%v|exp%d|co%v", maxRetrans, rtoMax, vfBkt(expiries), coincide > 0))
			}

			// the delayed-ack timer: one callback exactly 200 ms after each successful start
			aobs := &vfTimerObs{t0: time.Now()}
			at := newAckTimer(aobs)
			var wantAck []time.Duration
			running := false
			var due time.Duration
			anow := func() time.Duration { return time.Since(aobs.t0) }
			for i := 0; i < 30; i++ {
				time.Sleep(time.Duration(pr.Pick(0, 1, 50, 199, 200, 201, 400)) * time.Millisecond)
				synctest.Wait()
				if running && due <= anow() {
					wantAck = append(wantAck, due)
					running = false
				}
				switch pr.Intn(3) {
				case 0, 1:
					ok := at.start()
					if ok != !running {
						res.violate("C19", "acktimer/start-result", "ackTimer.start() = %v while running=%v", ok, running)
					}
					if !running {
						running, due = true, anow()+200*time.Millisecond
					}
				default:
					at.stop()
					running = false
				}
			}
			time.Sleep(time.Second)
			synctest.Wait()
			if running {
				wantAck = append(wantAck, due)
			}
			at.close()
			aobs.mu.Lock()
			ga := append([]vfTimerCb(nil), aobs.cbs...)
			aobs.mu.Unlock()
			res.count("c19_acktimer_expiries", int64(len(wantAck)))
			bad := len(ga) != len(wantAck)
			for i := 0; !bad && i < len(ga); i++ {
				bad = ga[i].T != wantAck[i]
			}
			if bad {
				res.violate("C19", "acktimer/callbacks", "ack timer fired at %v, a 200 ms delayed-ack timer fires at %v", ga, wantAck)
			}
		})
	}
	res.res.Evals = res.get("c19_timer_expiries") + res.get("c19_acktimer_expiries")
	res.res.Nontrivial = true
	res.res.Sample = map[string]any{"kind": "timer-prog", "programs": nProg, "rtx_expiries": res.get("c19_timer_expiries"), "ack_expiries": res.get("c19_acktimer_expiries")}
}

func vfBkt(n int) int {
	switch {
	case n < 4:
		return 3
	case n < 10:
		return 9
	case n < 30:
		return 29
	}

	return 99
}

// concurrent start/stop/close storms on one timer (parallel goroutines, virtual time)
func vfRunTimerStorm(t *testing.T, spec *vfSpec, res *vfRes) {
	vfRunBubble(t, spec.ID, func(t *testing.T) {
		pr := vfNewRand(spec.Seed)
		obs := &vfTimerObs{t0: time.Now()}
		maxRetrans := uint(pr.Pick(0, 0, 3)) //nolint:gosec
		tm := newRTXTimer(1, obs, maxRetrans, 4000)
		at := newAckTimer(obs)
		var wg sync.WaitGroup
		for g := 0; g < 6; g++ {
			gr := vfNewRand(pr.Uint64())
			wg.Add(1)
			go func() {
				defer wg.Done()
				for i := 0; i < 300; i++ {
					switch gr.Intn(8) {
					case 0, 1, 2:
						tm.start(float64(gr.Pick(1, 5, 1000)))
					case 3, 4:
						tm.stop()
					case 5:
						at.start()
					case 6:
						at.stop()
					default:
						_ = tm.isRunning()
					}
					if gr.Intn(3) == 0 {
						time.Sleep(time.Duration(gr.Pick(0, 1, 5, 1000, 2000)) * time.Millisecond)
					}
				}
			}()
		}
		wg.Wait()
		synctest.Wait()
		// whatever the storm did, the timer must still work: a fresh start expires and calls back
		tm.stop()
		synctest.Wait()
		obs.mu.Lock()
		nBefore := len(obs.cbs)
		obs.mu.Unlock()
		if tm.start(7) {
			time.Sleep(20 * time.Millisecond)
			synctest.Wait()
			obs.mu.Lock()
			nAfter := len(obs.cbs)
			obs.mu.Unlock()
			if nAfter == nBefore {
				res.violate("C19", "timer/dead-after-storm", "after a storm of concurrent start/stop calls a freshly started 7 ms timer never expired (pending=%d): the start/stop/expiry race protection lost count", tm.pending)
			}
		} else {
			res.violate("C19", "timer/start-result", "start() on a stopped timer returned false after the storm")
		}
		tm.close()
		at.close()
		closedAt := time.Since(obs.t0)
		time.Sleep(time.Hour)
		synctest.Wait()
		obs.mu.Lock()
		cbs := append([]vfTimerCb(nil), obs.cbs...)
		obs.mu.Unlock()
		var prevN uint
		nT := 0
		for _, c := range cbs {
			if c.T > closedAt {
				res.violate("C19", "timer/callback-after-close", "%s callback %v after close()", c.Kind, c.T-closedAt)
			}
			switch c.Kind {
			case "timeout":
				nT++
				if c.N != 1 && c.N != prevN+1 {
					res.violate("C19", "timer/nrtos-sequence", "expiry count went from %d to %d", prevN, c.N)
				}
				if maxRetrans != 0 && c.N > maxRetrans {
					res.violate("C19", "timer/over-limit", "timeout callback #%d with a retry limit of %d", c.N, maxRetrans)
				}
				prevN = c.N
			case "failure":
				if maxRetrans == 0 {
					res.violate("C19", "timer/failure-unlimited", "failure callback from a timer without retry limit")
				}
				prevN = 0
			}
		}
		if tm.pending != 0 && tm.pending != 1 {
			res.violate("C19", "timer/pending", "pending = %d after the storm", tm.pending)
		}
		res.count("c19_storm_callbacks", int64(len(cbs)))
		res.res.Evals = int64(len(cbs))
		res.res.Nontrivial = nT >= 3
		res.res.Sig = fmt.Sprintf("storm|mr%d|cb%d", maxRetrans, vfBkt(len(cbs)))
		res.res.Sample = map[string]any{"kind": "timer-storm", "callbacks": len(cbs)}
	})
}

// ---------------------------------------------------------------- (iii) back-off on the wire under blackout

// vfCheckDoubling checks successive gaps g1, g2, ...: each within [1 s, max] and g(k+1) = min(2 g(k), max) (1 ms per step of float truncation).
func vfCheckDoubling(res *vfRes, what string, times []time.Duration, rtoMax time.Duration) int {
	n := 0
	var prev time.Duration
	for i := 1; i < len(times); i++ {
		g := times[i] - times[i-1]
		n++
		res.count("c19_backoff_gaps", 1)
		if g < time.Second || g > rtoMax {
			res.violate("C19", "backoff/"+what+"/bounds", "%s: gap #%d between successive expiries is %v, outside [1 s, RTO.max = %v]", what, i, g, rtoMax)
		}
		if prev > 0 {
			want := 2 * prev
			if want > rtoMax {
				want = rtoMax
			}
			d := g - want
			if d < 0 {
				d = -d
			}
			if d > 2*time.Millisecond {
				res.violate("C19", "backoff/"+what+"/doubling", "%s: gap #%d is %v after a gap of %v, expected %v (doubling capped at RTO.max = %v)", what, i, g, prev, want, rtoMax)
			}
		}
		prev = g
	}

	return n
}

func vfRunBackoffData(t *testing.T, spec *vfSpec, res *vfRes) {
	bs := time.Duration(spec.Link.Blackouts[0][1]) * time.Microsecond
	be := time.Duration(spec.Link.Blackouts[0][2]) * time.Microsecond
	o := vfXferOpts{mon: vfMonCfg{checkAckDelay: true, checkImmediate: true}}
	o.afterMonitors = func(sim *vfSim, _ *vfWork, _ *vfMonOut) {
		sim.mu.Lock()
		hooks := append([]*vfHookEv(nil), sim.hookLog...)
		sim.mu.Unlock()
		delay := time.Duration(spec.Link.DelayUs) * time.Microsecond
		evs := sim.net.events()
		for side := 0; side < 2; side++ {
			cfg := &spec.A
			if side == 1 {
				cfg = &spec.B
			}
			var times []time.Duration
			for _, h := range hooks {
				if h.Side != side || h.Ev != vfEvT3Before {
					continue
				}
				rel := h.T - sim.estabAt
				if rel < bs+2*delay+time.Millisecond || rel >= be {
					continue
				}
				times = append(times, h.T)
				// the earliest outstanding TSN goes out at the same virtual instant
				want := h.Snap.CumAck + 1
				found := false
				for _, e := range evs {
					if e.T != h.T || e.Kind != vfWrWrite || e.Side != side {
						continue
					}
					pk := e.Pkt
					if pk == nil {
						pk = vfDecode(e.Raw)
					}
					for i := range pk.Chunks {
						if c := &pk.Chunks[i]; c.isData() && c.TSN == want {
							found = true
						}
					}
				}
				res.count("c19_t3_expiries", 1)
				if !found && h.Snap.InflightN > 0 {
					res.violate("C19", "backoff/t3/no-retransmission", "side %d: T3-rtx expired at %v with %d chunks outstanding but TSN %d (earliest outstanding) was not written at that instant", side, h.T, h.Snap.InflightN, want)
				}
			}
			if len(times) == 0 {
				continue
			}
			n := vfCheckDoubling(res, "t3", times, vfRTOMax(cfg))
			// still retransmitting at the end of the blackout
			if last := times[len(times)-1] - sim.estabAt; be-last > vfRTOMax(cfg)+time.Second {
				res.violate("C19", "backoff/t3/gave-up", "side %d: last T3-rtx expiry %v before the end of a %v blackout: data retransmission stopped although the association lives", side, be-last, be-bs)
			}
			if n >= 3 {
				res.seen(fmt.Sprintf("t3x%d", vfBkt(n)))
			}
		}
	}
	out := vfRunTransfer(t, spec, res, o)
	if out.sim != nil {
		vfNoteWrap(spec, res, out.mon)
		res.res.Nontrivial = res.get("c19_backoff_gaps") >= 3
		res.res.Sig = fmt.Sprintf("backoff-data|rtomax%v/%v|bl%v|%s", spec.A.RTOMaxMs, spec.B.RTOMaxMs, (be - bs).Round(time.Minute), res.mechs())
		res.res.Sample = map[string]any{"kind": spec.Kind, "blackout": (be - bs).String(), "t3_expiries": res.get("c19_t3_expiries"), "gaps_checked": res.get("c19_backoff_gaps"), "drained": out.drained}
	}
}

//nolint:gocognit,cyclop
func vfRunBackoffShutdown(t *testing.T, spec *vfSpec, res *vfRes) {
	vfRunBubble(t, spec.ID, func(t *testing.T) {
		sim := vfNewSim(t, spec, res)
		if !sim.start() {
			res.inconclusive("handshake failed")
			sim.teardown()
			sim.finalLeakCheck()

			return
		}
		a, b := sim.A(), sim.B()
		bs := time.Duration(spec.Link.Blackouts[0][1]) * time.Microsecond
		be := time.Duration(spec.Link.Blackouts[0][2]) * time.Microsecond
		st, _ := a.OpenStream(1, PayloadTypeWebRTCBinary)
		r := vfNewRand(spec.Seed)
		nm := 1 + r.Intn(5)
		key := vfMsgKey(spec.Seed, 0, 1, 0)
		for i := 0; i < nm; i++ {
			_, _ = st.WriteSCTP(vfMakeMsg(key, i, 1+r.Intn(3000)), PayloadTypeWebRTCBinary)
		}
		bst, _ := b.AcceptStream()
		buf := make([]byte, 65536)
		for i := 0; i < nm; i++ {
			_ = bst.SetReadDeadline(time.Now().Add(time.Second))
			if _, _, err := bst.ReadSCTP(buf); err != nil {
				break
			}
		}
		// go into the blackout, then shut down: the SHUTDOWN is retransmitted for as long as the association lives
		time.Sleep(bs + time.Duration(r.Intn(2000))*time.Millisecond - (sim.net.now() - sim.estabAt))
		done := make(chan error, 1)
		var retT time.Duration
		go func() {
			ctx, cancel := context.WithTimeout(context.Background(), be-bs+time.Hour)
			defer cancel()
			ev := sim.apiCall(0, "shutdown", 0)
			err := a.Shutdown(ctx)
			retT = sim.net.now()
			sim.apiRet(ev, 0, err)
			done <- err
		}()
		err := <-done
		if err != nil {
			res.violate("C08", "shutdown/error-after-heal", "Shutdown across a %v blackout returned %v", be-bs, err)
		}
		var times []time.Duration
		for _, e := range sim.net.events() {
			if e.Kind == vfWrWrite && e.Side == 0 && vfFirstChunkKind(e.Raw) == "SHUTDOWN" {
				if rel := e.T - sim.estabAt; rel >= bs && rel < be {
					times = append(times, e.T)
				}
			}
		}
		n := vfCheckDoubling(res, "t2", times, vfRTOMax(&spec.A))
		res.count("c19_t2_expiries", int64(len(times)))
		if len(times) > 0 {
			if last := times[len(times)-1] - sim.estabAt; be-last > vfRTOMax(&spec.A)+time.Second {
				res.violate("C19", "backoff/t2/gave-up", "last SHUTDOWN written %v before the end of a %v blackout: shutdown retransmission stopped although the association lives", be-last, be-bs)
			}
		}
		if lim := sim.estabAt + be + vfRTOMax(&spec.A) + time.Second; retT > lim {
			res.violate("C19", "backoff/t2/late-finish", "Shutdown returned at %v, the blackout ended at %v and RTO.max is %v", retT, sim.estabAt+be, vfRTOMax(&spec.A))
		}
		time.Sleep(5 * time.Second)
		sim.quiesce()
		sim.apiCall(1, "aclose", 0)
		sim.teardown()
		sim.finalLeakCheck()
		sim.runMonitors(vfMonCfg{})
		res.res.Nontrivial = n >= 3
		res.res.Sig = fmt.Sprintf("backoff-shutdown|rtomax%v|bl%v|g%d", spec.A.RTOMaxMs, (be - bs).Round(time.Minute), vfBkt(n))
		res.res.Sample = map[string]any{"kind": spec.Kind, "blackout": (be - bs).String(), "shutdown_packets": len(times), "gaps_checked": n}
	})
}

// ---------------------------------------------------------------- (v) on-demand heartbeat

//nolint:gocognit,cyclop
func vfRunHeartbeat(t *testing.T, spec *vfSpec, res *vfRes) {
	vfRunBubble(t, spec.ID, func(t *testing.T) {
		sim := vfNewSim(t, spec, res)
		if !sim.start() {
			res.inconclusive("handshake failed")
			sim.teardown()
			sim.finalLeakCheck()

			return
		}
		r := vfNewRand(spec.Seed)
		delay := time.Duration(spec.Link.DelayUs) * time.Microsecond
		withData := spec.x("data", 0) == 1
		if withData {
			st, _ := sim.A().OpenStream(1, PayloadTypeWebRTCBinary)
			key := vfMsgKey(spec.Seed, 0, 1, 0)
			for i := 0; i < 1+r.Intn(5); i++ {
				_, _ = st.WriteSCTP(vfMakeMsg(key, i, 1+r.Intn(2000)), PayloadTypeWebRTCBinary)
				time.Sleep(time.Duration(r.Intn(300)) * time.Millisecond)
			}
		}
		// no data round trip may still be under way: its RTT sample would land between the two SRTT readings
		for i := 0; i < 3000; i++ {
			sa, sb := sim.snap(0), sim.snap(1)
			if sa.InflightN+sa.PendingN+sb.InflightN+sb.PendingN == 0 {
				break
			}
			time.Sleep(100 * time.Millisecond)
		}
		time.Sleep(2*delay + time.Second)
		rounds := 1 + r.Intn(4)
		for k := 0; k < rounds; k++ {
			side := r.Intn(2)
			as := sim.getAssoc(side)
			sim.quiesce()
			before := as.SRTT()
			nBefore := len(sim.net.events())
			t0 := sim.net.now()
			as.ActiveHeartbeat()
			time.Sleep(2*delay + time.Millisecond)
			sim.quiesce()
			after := as.SRTT()
			res.count("c19_heartbeats", 1)
			var hb, hbAck *vfChunk
			var hbT, ackT time.Duration
			for _, e := range sim.net.events()[nBefore:] {
				if e.Kind != vfWrWrite {
					continue
				}
				pk := vfDecode(e.Raw)
				for i := range pk.Chunks {
					c := &pk.Chunks[i]
					if c.Type == vfCtHeartbeat && e.Side == side && hb == nil {
						hb, hbT = c, e.T
					}
					if c.Type == vfCtHeartbeatAck && e.Side == 1-side && hbAck == nil {
						hbAck, ackT = c, e.T
					}
				}
			}
			switch {
			case hb == nil:
				res.violate("C19", "heartbeat/not-sent", "ActiveHeartbeat on side %d wrote no HEARTBEAT", side)
			case len(hb.Val) < 12:
				res.violate("C19", "heartbeat/no-info", "ActiveHeartbeat wrote a HEARTBEAT with a %d-byte body: no Heartbeat Info parameter, the peer cannot answer it", len(hb.Val))
			case hbT != t0:
				res.violate("C19", "heartbeat/late", "HEARTBEAT written %v after ActiveHeartbeat", hbT-t0)
			case hbAck == nil:
				res.violate("C19", "heartbeat/unanswered", "the peer did not answer the on-demand HEARTBEAT")
			case !bytes.Equal(hbAck.Val, hb.Val):
				res.violate("C19", "heartbeat/echo", "HEARTBEAT-ACK does not echo the Heartbeat Info parameter (%x vs %x)", hbAck.Val, hb.Val)
			case ackT != t0+delay:
				res.violate("C19", "heartbeat/ack-late", "HEARTBEAT-ACK written at %v, the HEARTBEAT arrived at %v", ackT, t0+delay)
			default:
				rtt := float64(2*delay) / float64(time.Millisecond)
				want := rtt
				if before != 0 {
					want = 0.875*before + 0.125*rtt
				}
				if math.Abs(after-want) > 1e-6 {
					res.violate("C19", "heartbeat/no-sample", "SRTT() was %v ms before the on-demand heartbeat and %v after it; a round trip of %v ms gives %v", before, after, rtt, want)
				}
			}
			time.Sleep(time.Duration(r.Intn(1000)) * time.Millisecond)
		}
		sim.quiesce()
		sim.apiCall(0, "aclose", 0)
		sim.apiCall(1, "aclose", 0)
		sim.teardown()
		sim.finalLeakCheck()
		sim.runMonitors(vfMonCfg{checkAckDelay: true, checkImmediate: true})
		res.res.Nontrivial = true
		res.res.Sig = fmt.Sprintf("heartbeat|d%d|data%v|n%d|zc%v%v", spec.Link.DelayUs, withData, rounds, spec.A.ZC, spec.B.ZC)
		res.res.Sample = map[string]any{"kind": spec.Kind, "one_way_delay_us": spec.Link.DelayUs, "rounds": rounds, "srtt_ms": sim.A().SRTT()}
	})
}

// ---------------------------------------------------------------- scenario list

//nolint:gocognit,cyclop
func vfGenTimerSpecs(tier string, seed uint64, race bool) []vfSpec {
	var out []vfSpec
	add := func(sp vfSpec) {
		sp.Prop = "C19"
		sp.ID = fmt.Sprintf("C19-%s-%d", sp.Kind, len(out))
		out = append(out, sp)
	}
	nb := vfTierN(tier, 28, 400)
	if race {
		nb = 3
	}
	for i := 0; i < nb; i++ {
		r := vfNewRand(vfHash(seed, uint64(i), 0xC19))
		add(vfSpec{Kind: "rto-seq", Seed: r.Uint64(), X: map[string]int64{"seqs": int64(vfTierN(tier, 200, 1500))}})
		add(vfSpec{Kind: "timer-prog", Seed: r.Uint64(), X: map[string]int64{"programs": int64(vfTierN(tier, 12, 60))}})
		for k := 0; k < 4; k++ {
			add(vfSpec{Kind: "timer-storm", Seed: r.Uint64(), Procs: r.Pick(2, 4, 8, 16)})
		}
	}
	// acknowledgement promptness: transfers over reordering / duplicating / lossy links, no injected yields
	na := vfTierN(tier, 70, 1500)
	if race {
		na = 8
	}
	for i := 0; i < na; i++ {
		sp := vfGenTransferSpec("C19", 100000+i, seed, 1+i%3, 100)
		sp.Kind = "acks"
		sp.Yield = 0
		r := vfNewRand(vfHash(seed, uint64(i), 0xacc))
		sp.Link.DupPm = r.Pick(0, 20, 100, 300)
		sp.Link.JitterUs = int64(r.Pick(0, 0, 2000, 30000))
		if sp.Link.HealUs == 0 {
			sp.Link.HealUs = int64(5+r.Intn(25)) * 1000000
		}
		add(sp)
	}
	// back-off under blackout
	nk := vfTierN(tier, 24, 300)
	if race {
		nk = 4
	}
	for i := 0; i < nk; i++ {
		r := vfNewRand(vfHash(seed, uint64(i), 0xb0ff))
		kind := []string{"backoff-data", "backoff-shutdown"}[i%2]
		sp := vfSpec{Kind: kind, Seed: r.Uint64(), Roles: "cs"}
		sp.A, sp.B = vfSampleSides(r, 100)
		sp.B.IL = sp.A.IL
		sp.A.RTOMaxMs = float64(r.Pick(0, 0, 1000, 1500, 3000, 10000, 120000))
		sp.B.RTOMaxMs = float64(r.Pick(0, 2000, 60000))
		sp.A.MinCwnd, sp.B.MinCwnd = 0, 0
		start := int64(r.Pick(0, 1000, 30000, 500000, 2000000))
		if kind == "backoff-shutdown" {
			start = 3000000
		}
		dur := int64(r.Pick(60, 600, 3600, 7200)) * 1000000
		sp.Link = vfLinkCfg{DelayUs: int64(r.Pick(1000, 20000, 100000)), Blackouts: [][3]int64{{2, start, start + dur}}, HealUs: start + dur}
		if kind == "backoff-data" {
			nA := 1 + r.Intn(3)
			for s := 0; s < nA; s++ {
				sp.Streams = append(sp.Streams, vfStreamCfg{SID: uint16(s + 1), Dir: s % 2, NMsgs: 3 + r.Intn(20), SizeMode: []string{"small", "mixed", "big"}[r.Intn(3)], Reader: "fast", GapUs: int64(r.Pick(0, 1000, 100000))}) //nolint:gosec
			}
			if vfHash(sp.Seed, 0x19a)%3 == 0 {
				// window-limited first flight: what is left of the peer's window when the blackout begins is
				// smaller than a chunk but not zero; the retransmissions have to go on all the same
				sp.A.RecvBuf = uint32([]int{2500, 3500, 4096}[vfHash(sp.Seed, 0x19b)%3]) //nolint:gosec
				sp.B.RecvBuf = sp.A.RecvBuf
				for k := range sp.Streams {
					sp.Streams[k].NMsgs += 20
					sp.Streams[k].GapUs = 0
				}
			}
			sp.A.MaxMsg = vfEffMaxMsg(&sp.A, &sp.B, nA, sp.A.IL)
			sp.B.MaxMsg = vfEffMaxMsg(&sp.B, &sp.A, nA, sp.A.IL)
		}
		add(sp)
	}
	// handshake retry budget (shared scenario with C04) and on-demand heartbeat
	nh := vfTierN(tier, 12, 100)
	if race {
		nh = 2
	}
	for i := 0; i < nh; i++ {
		r := vfNewRand(vfHash(seed, uint64(i), 0x71))
		kind := []string{"silent", "cookie-silent"}[i%2]
		sp := vfSpec{Kind: kind, Seed: r.Uint64()}
		sp.A = vfSideCfg{IL: r.Intn(2) == 0, ZC: r.Intn(2) == 0, InitTSN: r.Uint32(), Tag: r.Uint32() | 1}
		sp.A.RTOMaxMs = float64(r.Pick(0, 1000, 1500, 3000, 10000, 100000))
		sp.Link = vfLinkCfg{DelayUs: int64(r.Pick(1000, 10000, 50000))}
		add(sp)
	}
	nhb := vfTierN(tier, 30, 400)
	if race {
		nhb = 4
	}
	for i := 0; i < nhb; i++ {
		r := vfNewRand(vfHash(seed, uint64(i), 0x4b))
		sp := vfSpec{Kind: "heartbeat", Seed: r.Uint64(), Roles: []string{"cs", "cc", "snap"}[r.Intn(3)]}
		sp.A, sp.B = vfSampleSides(r, 0)
		sp.Link = vfLinkCfg{DelayUs: int64(r.Pick(1, 500, 10000, 150000, 2000000))}
		sp.X = map[string]int64{"data": int64(i % 2)}
		add(sp)
	}
	sort.SliceStable(out, func(i, j int) bool { return false })

	return out
}

func init() { //nolint:gochecknoinits
	vfRegister(&vfProperty{
		id:   "C19",
		list: vfGenTimerSpecs,
		run: func(t *testing.T, spec *vfSpec, res *vfRes) {
			switch spec.Kind {
			case "rto-seq":
				vfRunRTOSequences(t, spec, res)
			case "timer-prog":
				vfRunTimerPrograms(t, spec, res)
			case "timer-storm":
				vfRunTimerStorm(t, spec, res)
			case "acks":
				mc := vfMonCfg{checkAckDelay: true, checkImmediate: true}
				n := [2]int{}
				for _, s := range spec.Streams {
					n[s.Dir]++
				}
				if n[0] > 12 || n[1] > 12 {
					mc.checkAckDelay = false
				}
				out := vfRunTransfer(t, spec, res, vfXferOpts{mon: mc})
				if out.sim != nil {
					res.res.Nontrivial = res.get("c19_ack_obligations") > 0
					res.res.Sig = fmt.Sprintf("acks|dup%v|gap%v|il%v|%d", res.has("dup-delivered"), res.has("gap-delivered"), spec.A.IL && spec.B.IL, vfBkt(int(res.get("c19_immediate_obligations"))))
					res.res.Sample = map[string]any{"kind": "acks", "ack_obligations": res.get("c19_ack_obligations"), "immediate": res.get("c19_immediate_obligations"), "drained": out.drained}
				}
			case "backoff-data":
				vfRunBackoffData(t, spec, res)
			case "backoff-shutdown":
				vfRunBackoffShutdown(t, spec, res)
			case "silent", "cookie-silent":
				vfRunHandshakeFailure(t, spec, res)
			case "heartbeat":
				vfRunHeartbeat(t, spec, res)
			}
		},
	})
}
