//go:build verif

package sctp

// C14 — stream close is ordered after the stream's data; identifiers can be
// reused after both directions were reset.

import (
	"errors"
	"fmt"
	"io"
	"sync"
	"testing"
	"time"
)

type vfIncRun struct {
	run      *vfStreamRun
	sid      uint16
	inc      int
	wside    int
	readEOFt time.Duration
	backEnd  error // what the writer side read on the stream (peer's close)
}

//nolint:gocognit,cyclop,maintidx
func vfRunReset(t *testing.T, spec *vfSpec, res *vfRes) {
	vfRunBubble(t, spec.ID, func(t *testing.T) {
		sim := vfNewSim(t, spec, res)
		if !sim.start() {
			res.violate("C04", "handshake/failed-clean-link", "handshake failed: %v %v", sim.connErr[0], sim.connErr[1])
			sim.teardown()
			sim.finalLeakCheck()

			return
		}
		nStreams := int(spec.x("streams", 1))
		nInc := int(spec.x("incarnations", 2))
		q := int(spec.x("q", 5))
		unordered := spec.x("unordered", 0) == 1
		sizeMode := spec.XS["sizes"]
		settle := time.Duration(spec.x("settle_ms", 0)) * time.Millisecond
		r := vfNewRand(spec.Seed ^ 0x14)

		// acceptors: every accepted stream is handed to whoever waits for (side, sid)
		type key struct {
			side int
			sid  uint16
		}
		acc := map[key]chan *Stream{}
		for side := 0; side < 2; side++ {
			for i := 0; i < nStreams; i++ {
				acc[key{side, uint16(i + 1)}] = make(chan *Stream, 16) //nolint:gosec
			}
		}
		accDone := [2]chan struct{}{make(chan struct{}), make(chan struct{})}
		for side := 0; side < 2; side++ {
			side := side
			go func() {
				defer close(accDone[side])
				a := sim.getAssoc(side)
				for {
					st, err := a.AcceptStream()
					if err != nil {
						return
					}
					if ch, ok := acc[key{side, st.StreamIdentifier()}]; ok {
						select {
						case ch <- st:
						default:
						}
					}
				}
			}()
		}
		// one long-lived reader per (side, stream id): it reads every stream object accepted for that id until
		// its end, answers the peer's reset by closing its own direction, and records what each object delivered
		type objRead struct {
			hashes []uint64
			recs   []vfReadRec
			end    error
		}
		var objMu sync.Mutex
		objs := map[key][]*objRead{}
		readersDone := make(chan struct{}, 64)
		nReaders := 0
		for side := 0; side < 2; side++ {
			for i := 0; i < nStreams; i++ {
				k := key{side, uint16(i + 1)} //nolint:gosec
				nReaders++
				go func() {
					defer func() { readersDone <- struct{}{} }()
					buf := make([]byte, 1<<20)
					rr := vfNewRand(vfHash(spec.Seed, uint64(k.side), uint64(k.sid), 0x51))
					for {
						var rst *Stream
						select {
						case rst = <-acc[k]:
						case <-sim.net.pumpDone:
							return
						}
						o := &objRead{}
						objMu.Lock()
						objs[k] = append(objs[k], o)
						objMu.Unlock()
						for {
							if spec.x("slow_reader", 0) == 1 {
								time.Sleep(time.Duration(1+rr.Intn(20)) * time.Millisecond)
							}
							if pm := spec.x("poll_reader_ms", 0); pm > 0 {
								_ = rst.SetReadDeadline(time.Now().Add(time.Duration(pm) * time.Millisecond))
							}
							n, ppi, err := rst.ReadSCTP(buf)
							if err != nil && spec.x("poll_reader_ms", 0) > 0 && errors.Is(err, ErrReadDeadlineExceeded) {
								select {
								case <-sim.net.pumpDone:
									_ = rst.SetReadDeadline(time.Time{})

									return
								default:
								}

								continue
							}
							if err != nil {
								_ = rst.SetReadDeadline(time.Time{})
								objMu.Lock()
								o.end = err
								objMu.Unlock()
								// the peer reset its direction: reset ours as well (RFC 8831 6.7)
								_ = rst.Close()

								break
							}
							rec := vfReadRec{N: n, PPI: uint32(ppi), Hash: vfMsgHash(uint32(ppi), buf[:n]), T: sim.net.now()}
							copy(rec.Head[:], buf[:n])
							objMu.Lock()
							o.hashes = append(o.hashes, rec.Hash)
							o.recs = append(o.recs, rec)
							objMu.Unlock()
						}
					}
				}()
			}
		}

		// background traffic on another stream that must be unaffected
		w := sim.newWorkNoAccept()
		bg := vfStreamCfg{SID: 100, Dir: 0, NMsgs: 40 + r.Intn(60), SizeMode: "mixed", Reader: "fast", GapUs: 3000}
		bgRun := w.addStreamWith(bg, 0, func(side int) *Stream {
			a := sim.getAssoc(side)
			if side == 0 {
				st, _ := a.OpenStream(100, PayloadTypeWebRTCBinary)

				return st
			}
			st, _ := a.OpenStream(100, PayloadTypeWebRTCBinary)

			return st
		})

		var incs []*vfIncRun
		allDone := make(chan struct{})
		var pendingStreams = nStreams
		doneCh := make(chan struct{}, nStreams)
		limit := 30 * time.Minute
		for i := 0; i < nStreams; i++ {
			sid := uint16(i + 1) //nolint:gosec
			myIncs := make([]*vfIncRun, nInc)
			for inc := 0; inc < nInc; inc++ {
				wside := 0
				if spec.x("alternate", 0) == 1 && inc%2 == 1 {
					wside = 1
				}
				cfg := vfStreamCfg{SID: sid, Dir: wside, NMsgs: q, SizeMode: sizeMode, Unordered: unordered}
				run := &vfStreamRun{
					cfg: cfg, inc: inc, key: vfMsgKey(spec.Seed, wside, sid, inc), wside: wside,
					wDone: make(chan struct{}), rDone: make(chan struct{}), resume: make(chan struct{}),
				}
				myIncs[inc] = &vfIncRun{run: run, sid: sid, inc: inc, wside: wside}
			}
			incs = append(incs, myIncs...)
			go func() {
				defer func() { doneCh <- struct{}{} }()
				for inc := 0; inc < nInc; inc++ {
					ir := myIncs[inc]
					run := ir.run
					wside := ir.wside
					aw, ar := sim.getAssoc(wside), sim.getAssoc(1-wside)
					_ = ar
					wst, err := aw.OpenStream(sid, PayloadTypeWebRTCBinary)
					if err != nil {
						res.violate("C14", "open/error", "incarnation %d of stream %d: OpenStream failed: %v", inc, sid, err)

						return
					}
					wst.SetReliabilityParams(unordered, ReliabilityTypeReliable, 0)
					run.wStream = wst
					// writer
					rnd := vfNewRand(vfHash(run.key, 0x77))
					maxPayload := int(aw.maxPayloadSize)
					for k := 0; k < q; k++ {
						size := vfPickSize(sizeMode, rnd, maxPayload, int(aw.MaxMessageSize()))
						ppi := vfPPIs[rnd.Intn(len(vfPPIs))]
						msg := vfMakeMsg(run.key, k, size)
						rec := vfWriteRec{Idx: k, Size: size, PPI: ppi, Hash: vfMsgHash(ppi, msg), Unordered: unordered}
						_, err := wst.WriteSCTP(msg, PayloadProtocolIdentifier(ppi))
						rec.Err, rec.Accepted = err, err == nil
						run.mu.Lock()
						run.writes = append(run.writes, rec)
						run.mu.Unlock()
						if err == nil {
							run.nWrit.Add(1)
						}
						if pace := spec.x("pace_ms", 0); pace > 0 {
							// a paced writer: the incarnation is still writing when late answers to retransmitted
							// requests of the previous incarnation arrive
							time.Sleep(time.Duration(pace) * time.Millisecond)
						}
					}
					if q == 0 {
						// a stream with nothing written is unknown to the peer: write one message so that it exists
						msg := vfMakeMsg(run.key, 0, 10)
						_, err := wst.WriteSCTP(msg, 53)
						run.mu.Lock()
						run.writes = append(run.writes, vfWriteRec{Idx: 0, Size: 10, PPI: 53, Hash: vfMsgHash(53, msg), Accepted: err == nil, Err: err, Unordered: unordered})
						run.mu.Unlock()
					}
					if spec.x("idle_close", 0) == 1 {
						// a stream that was opened but never written to (the peer does not know it) is closed at the same
						// instant, first: its identifier may share the reset request with the active stream's
						if idle, ierr := aw.OpenStream(200+sid+uint16(10*inc), PayloadTypeWebRTCBinary); ierr == nil { //nolint:gosec
							_ = idle.Close()
							res.count("c14_idle_closes", 1)
						}
					}
					if err := wst.Close(); err != nil {
						res.violate("C14", "close/error", "incarnation %d of stream %d: Close returned %v", inc, sid, err)
					}
					if dc := spec.x("double_close", 0); dc > 0 {
						// Close is idempotent: a second call while the reset is in progress asks for nothing new
						if dc == 2 {
							time.Sleep(3 * time.Millisecond)
						}
						if err := wst.Close(); err != nil {
							res.violate("C14", "close/error", "incarnation %d of stream %d: second Close returned %v", inc, sid, err)
						}
					}
					close(run.wDone)
					// writes after Close are rejected
					if _, err := wst.WriteSCTP([]byte("after close"), 53); err == nil {
						res.violate("C18", "write/after-close-accepted", "stream %d: WriteSCTP after Close returned nil", sid)
					}
					// wait for the peer's close (EOF on our side of the stream)
					back := make(chan error, 1)
					go func() {
						b := make([]byte, 65536)
						for {
							_, _, err := wst.ReadSCTP(b)
							if err != nil {
								back <- err

								return
							}
						}
					}()
					tm := time.NewTimer(limit)
					select {
					case ir.backEnd = <-back:
						tm.Stop()
					case <-tm.C:
						for sd := 0; sd < 2; sd++ {
							if a := sim.getAssoc(sd); a != nil {
								a.lock.RLock()
								var rs []string
								for rsn, rc := range a.reconfigs {
									if rq, ok := rc.paramA.(*paramOutgoingResetRequest); ok {
										rs = append(rs, fmt.Sprintf("rsn=%d last=%d sids=%v", rsn, rq.senderLastTSN, rq.streamIdentifiers))
									}
								}
								var in []string
								for rsn, rq := range a.reconfigRequests {
									in = append(in, fmt.Sprintf("rsn=%d last=%d sids=%v", rsn, rq.senderLastTSN, rq.streamIdentifiers))
								}
								stDesc := "absent"
								if st, ok := a.streams[sid]; ok {
									st.lock.RLock()
									stDesc = fmt.Sprintf("state=%d readErr=%v", st.state, st.readErr)
									st.lock.RUnlock()
								}
								inf := ""
								for i := 0; i < a.inflightQueue.size() && i < 12; i++ {
									c := a.inflightQueue.chunks.At(i)
									inf += fmt.Sprintf(" [tsn=%d sid=%d len=%d nSent=%d acked=%v aband=%v rtx=%v]", c.tsn, c.streamIdentifier, len(c.userData), c.nSent, c.acked, c.abandoned(), c.retransmit)
								}
								res.witness("side %d: cwnd=%d rwnd=%d credit=%d t3running=%v t3nRtos=%d ackState=%d inFR=%v willRtxFast=%v tlr=%v inflight:%s", sd, a.CWND(), a.RWND(), a.getMyReceiverWindowCredit(), a.t3RTX.isRunning(), a.t3RTX.nRtos, a.ackState, a.inFastRecovery, a.willRetransmitFast, a.tlrActive, inf)
								res.witness("side %d: state=%d outstanding own requests=%v tReconfig running=%v; pending peer requests=%v; peerLastTSN=%d myNextTSN=%d cumAck=%d inflight=%d pending=%d; stream %d: %s", sd, a.getState(), rs, a.tReconfig.isRunning(), in, a.peerLastTSN(), a.myNextTSN, a.cumulativeTSNAckPoint, a.inflightQueue.size(), a.pendingQueue.size(), sid, stDesc)
								a.lock.RUnlock()
							}
						}
						wst.lock.RLock()
						res.witness("closing side's stream object: state=%d readErr=%v", wst.state, wst.readErr)
						wst.lock.RUnlock()
						res.violate("C14", "close/no-eof-back", "incarnation %d of stream %d: the closing side never saw the peer's reset (EOF) within %v", inc, sid, limit)

						return
					case <-sim.net.pumpDone:
						return
					}
					if settle > 0 {
						time.Sleep(settle)
					}
				}
			}()
		}
		go func() {
			for pendingStreams > 0 {
				<-doneCh
				pendingStreams--
			}
			close(allDone)
		}()
		finished := vfWaitCh(allDone, 2*time.Hour) == nil
		if !finished {
			res.violate("C14", "cycle/hang", "close/reopen cycles did not finish within 2 h of virtual time")
		}
		w.waitWriters(10 * time.Minute)
		sim.net.healNow()
		drained := w.waitDrained(sim.healBound())
		sim.quiesce()
		sim.teardown()
		<-accDone[0]
		<-accDone[1]
		for i := 0; i < nReaders; i++ {
			<-readersDone
		}
		w.waitReaders(10 * time.Second)
		time.Sleep(time.Second)
		sim.finalLeakCheck()
		mo := sim.runMonitors(vfMonCfg{})
		_ = mo
		vfCheckDelivery(res, "C01", bgRun, drained)
		nRtx := 0
		for _, e := range sim.net.events() {
			if e.Kind == vfWrDrop && vfFirstChunkKind(e.Raw) == "RECONFIG" {
				nRtx++
			}
		}
		for _, ir := range incs {
			run := ir.run
			run.mu.Lock()
			nw := len(run.writes)
			writes := append([]vfWriteRec(nil), run.writes...)
			run.mu.Unlock()
			if nw == 0 {
				continue // incarnation never started (earlier failure)
			}
			// hashes that identify this incarnation (tiny messages can be identical in several incarnations)
			mine := map[uint64]bool{}
			for _, wr := range writes {
				if wr.Accepted {
					mine[wr.Hash] = true
				}
			}
			for _, other := range incs {
				if other == ir || other.sid != ir.sid || other.wside != ir.wside {
					continue
				}
				other.run.mu.Lock()
				for _, wr := range other.run.writes {
					delete(mine, wr.Hash)
				}
				other.run.mu.Unlock()
			}
			if len(mine) == 0 {
				res.count("c14_incarnations_ambiguous", 1)

				continue // nothing distinguishes this incarnation's payloads from its neighbours'
			}
			// the stream object(s) on the reading side that delivered messages of this incarnation
			objMu.Lock()
			var hit []*objRead
			for _, o := range objs[key{1 - ir.wside, ir.sid}] {
				for _, h := range o.hashes {
					if mine[h] {
						hit = append(hit, o)

						break
					}
				}
			}
			objMu.Unlock()
			res.count("c14_incarnations_checked", 1)
			if ir.inc > 0 {
				res.count("c14_reopened_checked", 1)
			}
			if len(hit) == 0 {
				res.violate("C14", "reader/nothing", "incarnation %d of stream %d: none of its %d messages was delivered to any stream object of the peer", ir.inc, ir.sid, len(mine))

				continue
			}
			if len(hit) > 1 {
				res.violate("C14", "reader/split", "incarnation %d of stream %d: its messages were delivered through %d different stream objects (the stream was reset in the middle of its data)", ir.inc, ir.sid, len(hit))
			}
			o := hit[0]
			run.mu.Lock()
			run.reads = append([]vfReadRec(nil), o.recs...)
			run.readEnd = o.end
			run.mu.Unlock()
			st := vfCheckDelivery(res, "C14", run, true)
			end := o.end
			if end == nil {
				res.violate("C14", "reader/no-eof", "incarnation %d of stream %d: the reader never saw end-of-file (read %d of %d)", ir.inc, ir.sid, st.Delivered, st.Accepted)
			} else if end != io.EOF { //nolint:errorlint
				if finished {
					res.violate("C14", "reader/wrong-error", "incarnation %d of stream %d: the reader got %v instead of io.EOF", ir.inc, ir.sid, end)
				}
			} else if st.Delivered != st.Accepted {
				res.violate("C14", "reader/eof-early", "incarnation %d of stream %d: EOF after %d of %d messages written before Close", ir.inc, ir.sid, st.Delivered, st.Accepted)
			}
			if ir.backEnd != nil && ir.backEnd != io.EOF { //nolint:errorlint
				res.violate("C14", "writer/wrong-back-error", "incarnation %d of stream %d: the closing side read %v instead of io.EOF", ir.inc, ir.sid, ir.backEnd)
			}
		}
		vfCheckIncarnationSeq(sim, res)
		{
			// witness: what each stream object of the reading side delivered, as incarnation:index
			who := map[uint64]string{}
			for _, ir := range incs {
				ir.run.mu.Lock()
				for _, wr := range ir.run.writes {
					who[wr.Hash] = fmt.Sprintf("%d:%d", ir.inc, wr.Idx)
				}
				ir.run.mu.Unlock()
			}
			objMu.Lock()
			for k, os := range objs {
				for i, o := range os {
					line := fmt.Sprintf("side %d sid %d object %d end=%v:", k.side, k.sid, i, o.end)
					for _, h := range o.hashes {
						if w, ok := who[h]; ok {
							line += " " + w
						} else {
							line += " ?"
						}
					}
					res.witness("%s", line)
				}
			}
			objMu.Unlock()
		}
		sim.vfDumpTrace()
		res.res.Nontrivial = nRtx > 0 || res.has("reset-before-data")
		fr := "DATA"
		if spec.A.IL && spec.B.IL {
			fr = "I-DATA"
		}
		res.res.Sig = fmt.Sprintf("%s|unord%v|q%d|n%d|inc%d|%s|%s", fr, unordered, vfBucket(int64(q)), nStreams, nInc, spec.XS["fault"], res.mechs())
		res.res.Sample = map[string]any{"framing": fr, "unordered": unordered, "queued_at_close": q, "streams": nStreams, "incarnations": nInc, "fault": spec.XS["fault"], "reconfig_dropped": nRtx, "link": spec.Link}
	})
}

// vfCheckIncarnationSeq: after a side wrote a reset request for a stream, the
// next first-transmitted beginning fragment of an ordered message on that stream
// carries SSN / MID 0. Also notes when a reset request was delivered before all
// the data it covers.
func vfCheckIncarnationSeq(s *vfSim, res *vfRes) {
	type k struct {
		side int
		sid  uint16
	}
	pending := map[k]bool{}
	seenReq := map[[2]uint32]bool{}
	seen := map[k]map[uint32]bool{}
	var highDelivered [2]uint32
	var haveDelivered [2]bool
	for _, e := range s.net.events() {
		if e.Pkt == nil {
			e.Pkt = vfDecode(e.Raw)
		}
		for i := range e.Pkt.Chunks {
			c := &e.Pkt.Chunks[i]
			switch {
			case e.Kind == vfWrWrite && c.Type == vfCtReconfig:
				for _, p := range c.Params {
					if rq, ok := vfParseResetReq(p); ok {
						if seenReq[[2]uint32{uint32(e.Side), rq.ReqSeq}] { //nolint:gosec
							continue // a retransmission of a request says nothing about what follows it
						}
						seenReq[[2]uint32{uint32(e.Side), rq.ReqSeq}] = true //nolint:gosec
						for _, sid := range rq.SIDs {
							pending[k{e.Side, sid}] = true
						}
					}
				}
			case e.Kind == vfWrDeliver && c.Type == vfCtReconfig:
				for _, p := range c.Params {
					if rq, ok := vfParseResetReq(p); ok {
						if !haveDelivered[e.Side] || sna32GT(rq.LastTSN, highDelivered[e.Side]) {
							res.seen("reset-before-data")
						}
					}
				}
			case e.Kind == vfWrDeliver && c.isData():
				if !haveDelivered[e.Side] || sna32GT(c.TSN, highDelivered[e.Side]) {
					highDelivered[e.Side], haveDelivered[e.Side] = c.TSN, true
				}
			case e.Kind == vfWrWrite && c.isData():
				kk := k{e.Side, c.SID}
				if seen[kk] == nil {
					seen[kk] = map[uint32]bool{}
				}
				if seen[kk][c.TSN] {
					continue
				}
				seen[kk][c.TSN] = true
				if pending[kk] && c.B && !c.U {
					delete(pending, kk)
					seq := uint32(c.SSN)
					if c.Type == vfCtIData {
						seq = c.MID
					}
					res.count("c14_first_seq_checked", 1)
					if seq != 0 {
						res.violate("C14", "wire/first-seq", "side %d stream %d: the first ordered message after the stream was reset carries sequence number %d instead of 0", e.Side, c.SID, seq)
					}
				}
			}
		}
	}
}

func vfGenResetSpecs(tier string, seed uint64, race bool) []vfSpec {
	n := vfTierN(tier, 270, 4000)
	if race {
		n = vfTierN(tier, 30, 200)
	}
	out := make([]vfSpec, 0, n)
	faults := []string{"none", "loss", "drop-request", "drop-request-2", "drop-response", "delay-data", "dup-reconfig", "reorder", "harsh", "drop-responses"}
	for i := 0; i < n; i++ {
		r := vfNewRand(vfHash(seed, uint64(i), 0xC14))
		sp := vfSpec{Prop: "C14", Kind: "reset", ID: fmt.Sprintf("C14-reset-%d", i), Seed: r.Uint64()}
		sp.A, sp.B = vfSampleSides(r, 100)
		sp.A.MTU, sp.B.MTU = uint32(r.Pick(0, 0, 576, 256)), uint32(r.Pick(0, 0, 1500)) //nolint:gosec
		sp.A.RecvBuf, sp.B.RecvBuf = 0, 0
		sp.A.RTOMaxMs, sp.B.RTOMaxMs = 5000, 5000
		sp.A.MaxMsg, sp.B.MaxMsg = 30000, 30000
		fk := faults[i%len(faults)]
		l := vfLinkCfg{DelayUs: int64(r.Pick(5000, 10000, 20000))}
		switch fk {
		case "loss":
			l.LossPm = r.Pick(50, 150)
		case "drop-request":
			l.Script = []vfFault{{Dir: 0, Kind: "RECONFIG", Nth: 1, Act: "drop"}}
		case "drop-request-2":
			l.Script = []vfFault{{Dir: 0, Kind: "RECONFIG", Nth: 1, Act: "drop"}, {Dir: 0, Kind: "RECONFIG", Nth: 2, Act: "drop"}, {Dir: 1, Kind: "RECONFIG", Nth: 2, Act: "drop"}}
		case "drop-response":
			l.Script = []vfFault{{Dir: 1, Kind: "RECONFIG", Nth: 1, Act: "drop"}, {Dir: 0, Kind: "RECONFIG", Nth: 3, Act: "drop"}}
		case "drop-responses":
			// the first responses of one side are all lost (its own requests get through): the peer's request is still
			// being retransmitted, and finally answered "nothing to do", after the identifier was re-opened
			d := r.Intn(2)
			for nth := 1; nth <= 2+r.Intn(3); nth++ {
				l.Script = append(l.Script, vfFault{Dir: d, Kind: "RECONFIG-RESP", Nth: nth, Act: "drop"})
			}
		case "delay-data":
			// the data in front of the reset request is delayed so that the request overtakes it
			kind := "DATA"
			if sp.A.IL && sp.B.IL {
				kind = "I-DATA"
			}
			for k := 1; k <= 3; k++ {
				l.Script = append(l.Script, vfFault{Dir: 0, Kind: kind, Nth: k + r.Intn(3), Act: "delay", DelayUs: int64(r.Pick(100000, 400000, 1500000))})
			}
		case "dup-reconfig":
			l.Script = []vfFault{{Dir: 0, Kind: "RECONFIG", Nth: 1, Act: "dup", DelayUs: int64(r.Pick(1000, 200000, 2000000))}, {Dir: 1, Kind: "RECONFIG", Nth: 1, Act: "dup", DelayUs: int64(r.Pick(1000, 200000))}}
		case "reorder":
			l.JitterUs = l.DelayUs * int64(r.Pick(2, 8))
			l.DupPm = r.Pick(0, 100)
		case "harsh":
			l.LossPm, l.DupPm, l.JitterUs = 150, 80, l.DelayUs*3
		}
		if l.LossPm > 0 {
			// stochastic loss stops after a while: under permanent 15 % loss a sender with a 256-byte MTU crawls at one
			// chunk per RTO (legitimately) and a large program would need hours of virtual time
			l.HealUs = int64(r.Pick(20, 60, 120)) * 1000000
		}
		sp.Link = l
		sp.X = map[string]int64{
			"streams": int64(r.Pick(1, 1, 2, 4, 16)), "incarnations": int64(r.Pick(1, 2, 3, 5)), "q": int64(r.Pick(0, 1, 3, 10, 40, 200)),
			"unordered": int64(r.Intn(2)), "slow_reader": int64(r.Intn(3) / 2), "alternate": int64(r.Intn(2)),
			"settle_ms": int64(r.Pick(0, 0, 50, 3000)), "idle_close": int64(r.Intn(2)),
		}
		// a reader that arms a read deadline before every read (the end of the stream must survive that)
		sp.X["double_close"] = int64([]int{0, 0, 1, 2}[vfHash(sp.Seed, 0x9013)%4])
		if vfHash(sp.Seed, 0x9011)%3 == 0 {
			sp.X["poll_reader_ms"] = int64([]int{50, 300, 2000}[vfHash(sp.Seed, 0x9012)%3])
		}
		if fk == "drop-responses" || r.Intn(6) == 0 {
			sp.X["pace_ms"] = int64(r.Pick(200, 700))
			if sp.X["q"] > 10 {
				sp.X["q"] = int64(r.Pick(3, 10))
			}
			if sp.X["incarnations"] < 2 {
				sp.X["incarnations"] = 2
			}
		}
		if sp.X["q"] == 200 {
			sp.X["streams"] = int64(r.Pick(1, 2))
			sp.X["incarnations"] = int64(r.Pick(1, 2))
		}
		sp.XS = map[string]string{"fault": fk, "sizes": []string{"small", "mixed", "tiny", "boundary"}[r.Intn(4)]}
		if (fk == "delay-data" || fk == "reorder" || fk == "dup-reconfig") && r.Intn(2) == 0 {
			// the data in front of the first close straddles the 2^32 TSN wrap: the request's "last assigned TSN" lies
			// beyond the wrap while the receiver's cumulative TSN may still be in front of it
			n := uint32(sp.X["q"]*sp.X["streams"]) + 2 //nolint:gosec
			side := &sp.A
			side.InitTSN = ^uint32(0) - n + 1 + uint32(r.Intn(int(n/2)+2)) //nolint:gosec
			if sp.XS["sizes"] == "mixed" || sp.XS["sizes"] == "boundary" {
				sp.XS["sizes"] = "small"
			}
		}
		out = append(out, sp)
	}

	return out
}

func init() { //nolint:gochecknoinits
	vfRegister(&vfProperty{id: "C14", list: vfGenResetSpecs, run: vfRunReset})
}
