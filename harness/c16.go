//go:build verif

package sctp

// C16 — sequence-number wrap-around is invisible.
// (a) serial-arithmetic helpers: exhaustive over all pairs of 16-bit values,
//     all differences of 32-bit values at several bases (sampled in quick);
// (b) component differentials at shifted bases (receive queue and reassembly
//     queue via their models, in-flight payloadQueue by shifted pair);
// (c) whole associations in lock-step: the same scenario at a reference
//     initial-TSN pair and at shifted pairs, with SSN/MID/RSN preset near their
//     wrap, must give identical normalised wire traces, deliveries and state.

import (
	"fmt"
	"sort"
	"strings"
	"testing"
	"time"
)

// ---------------------------------------------------------------- (a) helpers

func vfCheck16(res *vfRes, a, b uint16) bool {
	lt, lte, gt, gte, eq := sna16LT(a, b), sna16LTE(a, b), sna16GT(a, b), sna16GTE(a, b), sna16EQ(a, b)
	d := b - a
	half := d == 1<<15
	bad := func(what string) bool {
		res.violate("C16", "sna16/"+what, "sna16(%d,%d): LT=%v LTE=%v GT=%v GTE=%v EQ=%v violates %s", a, b, lt, lte, gt, gte, eq, what)

		return false
	}
	if eq != (a == b) {
		return bad("eq")
	}
	if lte != (lt || eq) || gte != (gt || eq) {
		return bad("closure")
	}
	if !half {
		n := 0
		for _, x := range []bool{lt, eq, gt} {
			if x {
				n++
			}
		}
		if n != 1 {
			return bad("trichotomy")
		}
		if lt != sna16GT(b, a) {
			return bad("antisymmetry")
		}
		// a is before b iff 0 < b-a < half
		if lt != (d != 0 && d < 1<<15) {
			return bad("definition")
		}
	}

	return true
}

func vfCheck32(res *vfRes, a, b uint32, c uint32) bool {
	lt, lte, gt, gte, eq := sna32LT(a, b), sna32LTE(a, b), sna32GT(a, b), sna32GTE(a, b), sna32EQ(a, b)
	d := b - a
	half := d == 1<<31
	bad := func(what string) bool {
		res.violate("C16", "sna32/"+what, "sna32(%d,%d): LT=%v LTE=%v GT=%v GTE=%v EQ=%v violates %s", a, b, lt, lte, gt, gte, eq, what)

		return false
	}
	if eq != (a == b) {
		return bad("eq")
	}
	if lte != (lt || eq) || gte != (gt || eq) {
		return bad("closure")
	}
	if !half {
		n := 0
		for _, x := range []bool{lt, eq, gt} {
			if x {
				n++
			}
		}
		if n != 1 {
			return bad("trichotomy")
		}
		if lt != sna32GT(b, a) {
			return bad("antisymmetry")
		}
		if lt != (d != 0 && d < 1<<31) {
			return bad("definition")
		}
		if lt != sna32LT(a+c, b+c) || gt != sna32GT(a+c, b+c) {
			return bad("shift-invariance")
		}
	}

	return true
}

func vfRunHelperBatch(spec *vfSpec, res *vfRes) {
	switch spec.XS["space"] {
	case "16":
		// all pairs (a, b) with a in [lo, hi)
		lo, hi := int(spec.x("lo", 0)), int(spec.x("hi", 65536))
		for a := lo; a < hi; a++ {
			for b := 0; b < 65536; b++ {
				if !vfCheck16(res, uint16(a), uint16(b)) { //nolint:gosec
					return
				}
			}
			// shift invariance on the 16-bit helpers
			c := uint16(a*7919 + 13) //nolint:gosec
			for b := 0; b < 65536; b += 257 {
				x, y := uint16(a), uint16(b) //nolint:gosec
				if y-x != 1<<15 && sna16LT(x, y) != sna16LT(x+c, y+c) {
					res.violate("C16", "sna16/shift-invariance", "sna16LT(%d,%d) != sna16LT(%d,%d)", x, y, x+c, y+c)

					return
				}
			}
		}
		res.res.Evals = int64(hi-lo) * 65536
		res.count("c16_pairs16", int64(hi-lo)*65536)
		res.addSig(fmt.Sprintf("sna16|a in [%d,%d) x all b", lo, hi))
		res.res.Sample = map[string]any{"kind": "sna16-exhaustive-slice", "a_from": lo, "a_to": hi, "b": "0..65535"}
	default:
		// differences d in [lo, hi) with stride, at fixed bases
		r := vfNewRand(spec.Seed)
		bases := []uint32{0, 1, 1<<31 - 1, 1 << 31, 1<<32 - 1, r.Uint32(), r.Uint32()}
		lo, hi, stride := uint64(spec.x("lo", 0)), uint64(spec.x("hi", 1<<32)), uint64(spec.x("stride", 1)) //nolint:gosec
		n := int64(0)
		for d := lo; d < hi; d += stride {
			for _, base := range bases {
				if !vfCheck32(res, base, base+uint32(d), uint32(d*2654435761)+base) { //nolint:gosec
					return
				}
				n++
			}
		}
		// boundaries of every slice are always covered exactly
		for _, d := range []uint32{0, 1, 2, 1<<31 - 2, 1<<31 - 1, 1 << 31, 1<<31 + 1, 1<<32 - 2, 1<<32 - 1} {
			for _, base := range bases {
				if !vfCheck32(res, base, base+d, r.Uint32()) {
					return
				}
				n++
			}
		}
		res.res.Evals = n
		res.count("c16_pairs32", n)
		res.addSig(fmt.Sprintf("sna32|d in [%d,%d) stride %d", lo, hi, stride))
		res.res.Sample = map[string]any{"kind": "sna32-differences", "d_from": lo, "d_to": hi, "stride": stride, "bases": bases}
	}
	res.res.Nontrivial = true
}

// ---------------------------------------------------------------- (b) in-flight queue, shifted pair

func vfPayloadQueueTrace(base uint32, seed uint64, nops int) []string {
	r := vfNewRand(seed)
	q := newPayloadQueue()
	next := base
	front := base
	var out []string
	for i := 0; i < nops; i++ {
		switch r.Intn(5) {
		case 0, 1:
			c := &chunkPayloadData{tsn: next, userData: make([]byte, 1+r.Intn(50))}
			next++
			q.pushNoCheck(c)
			out = append(out, fmt.Sprintf("push n=%d bytes=%d", q.size(), q.getNumBytes()))
		case 2:
			off := uint32(r.Intn(int(next-front)+3)) - 1 //nolint:gosec
			c, ok := q.get(front + off)
			if ok {
				out = append(out, fmt.Sprintf("get +%d ok tsn=+%d", int32(off), c.tsn-base)) //nolint:gosec
			} else {
				out = append(out, fmt.Sprintf("get +%d none", int32(off))) //nolint:gosec
			}
		case 3:
			if q.size() > 0 {
				_, ok := q.pop(front)
				if ok {
					front++
				}
				out = append(out, fmt.Sprintf("pop %v n=%d bytes=%d", ok, q.size(), q.getNumBytes()))
			}
			_, ok := q.pop(front + 1 + uint32(r.Intn(3))) //nolint:gosec
			out = append(out, fmt.Sprintf("pop-wrong %v", ok))
		default:
			off := uint32(r.Intn(int(next-front) + 2)) //nolint:gosec
			n := q.markAsAcked(front + off)
			out = append(out, fmt.Sprintf("ack +%d -> %d bytes=%d", off, n, q.getNumBytes()))
		}
	}

	return out
}

func vfRunShiftBatch(spec *vfSpec, res *vfRes) {
	// the component models are run here at bases that cross the wraps: what they find is a dependence on the
	// absolute sequence numbers
	res.mu.Lock()
	res.rewrite = func(prop, key string) (string, string) {
		if strings.HasPrefix(key, "rq/") || strings.HasPrefix(key, "rpq/") {
			return "C16", "component/" + key
		}

		return prop, key
	}
	res.mu.Unlock()
	r := vfNewRand(spec.Seed)
	n := int(spec.x("seqs", 200))
	for i := 0; i < n; i++ {
		seed := r.Uint64()
		ref := vfPayloadQueueTrace(1000, seed, 300)
		k := uint32(r.Intn(400)) //nolint:gosec
		for _, base := range []uint32{^uint32(0) - k, 1<<31 - k, 0} {
			got := vfPayloadQueueTrace(base, seed, 300)
			for j := range ref {
				if j >= len(got) || got[j] != ref[j] {
					res.violate("C16", "payloadqueue/shift", "in-flight queue behaves differently at base TSN %d than at 1000: step %d: %q vs %q", base, j, vfIdx(got, j), ref[j])

					return
				}
			}
		}
		res.count("c16_pq_sequences", 1)
		// receive queue and reassembly queue against their (base-free) models at wrap bases
		win := getMaxTSNOffset(uint32(250000 + r.Intn(5000000))) //nolint:gosec
		if _, ok := vfRPQSequence(res, r, win, ^uint32(0)-uint32(r.Intn(int(win)+64)), 200); !ok { //nolint:gosec
			return
		}
		if sig, _ := vfRQSequence(res, r, r.Intn(2) == 0, 0, 120); sig == "" {
			return
		}
		res.count("c16_model_sequences", 2)
	}
	res.res.Evals = int64(n) * 5
	res.res.Nontrivial = true
	res.addSig("components|shifted")
	res.res.Sample = map[string]any{"kind": "component-shift", "sequences": n, "bases": "1000 vs 2^32-k, 2^31-k, 0; receive queue at 2^32-k; reassembly with SSN/MID starting just below their wrap"}
}

func vfIdx(s []string, i int) string {
	if i < len(s) {
		return s[i]
	}

	return "<missing>"
}

// ---------------------------------------------------------------- (c) whole associations, lock-step

type vfTraceGroup struct {
	t     time.Duration
	lines []string
	snap  [2]string
}

type vfWrapVariant struct {
	name       string
	tsnA, tsnB uint32
	ssn        uint16
	mid        uint32
	rsn        uint32
	presetSeq  bool
}

// vfNormTrace renders one lock-step run with every sequence number relative
// to its initial value.
//
//nolint:gocognit,cyclop
func vfNormTrace(sim *vfSim, v vfWrapVariant, w *vfWork) []string {
	init := [2]uint32{v.tsnA, v.tsnB}
	var out []string
	var groups []*vfTraceGroup
	rsn0 := [2]uint32{v.tsnA, v.tsnB}
	if v.presetSeq {
		rsn0 = [2]uint32{v.rsn, v.rsn}
	}
	var ssn0 uint16
	var mid0 uint32
	if v.presetSeq {
		ssn0, mid0 = v.ssn, v.mid
	}
	for _, e := range sim.net.events() {
		if e.Kind != vfWrWrite && e.Kind != vfWrDeliver && e.Kind != vfWrDrop {
			continue
		}
		if e.Pkt == nil {
			e.Pkt = vfDecode(e.Raw)
		}
		who := e.Side
		sender := e.Side
		if e.Kind == vfWrDeliver {
			sender = 1 - e.Side
		}
		var sb strings.Builder
		fmt.Fprintf(&sb, "%d/%d", e.Kind, who)
		for i := range e.Pkt.Chunks {
			c := &e.Pkt.Chunks[i]
			switch {
			case c.isData():
				if c.Type == vfCtIData {
					fmt.Fprintf(&sb, " I-DATA(tsn+%d sid=%d mid+%d fsn=%d %s len=%d)", c.TSN-init[sender], c.SID, c.MID-mid0, c.FSN, vfFlags(c), len(c.Data))
				} else {
					fmt.Fprintf(&sb, " DATA(tsn+%d sid=%d ssn+%d %s len=%d)", c.TSN-init[sender], c.SID, c.SSN-ssn0, vfFlags(c), len(c.Data))
				}
			case c.Type == vfCtSack:
				var dups []uint32
				for _, d := range c.Dups {
					dups = append(dups, d-init[1-sender])
				}
				fmt.Fprintf(&sb, " SACK(cum+%d arwnd=%d gaps=%v dups=%v)", c.CumTSN-init[1-sender]+1, c.ARwnd, c.Gaps, dups)
			case c.Type == vfCtForwardTSN || c.Type == vfCtIForwardTSN:
				fmt.Fprintf(&sb, " %s(new+%d", c.kind(), c.NewCum-init[sender])
				fw := append([]vfFwd(nil), c.Fwd...)
				sort.Slice(fw, func(i, j int) bool {
					if fw[i].SID != fw[j].SID {
						return fw[i].SID < fw[j].SID
					}

					return !fw[i].Unordered && fw[j].Unordered
				})
				for _, f := range fw {
					if c.Type == vfCtForwardTSN {
						fmt.Fprintf(&sb, " %d:+%d", f.SID, uint16(f.Seq)-ssn0) //nolint:gosec
					} else {
						fmt.Fprintf(&sb, " %d/%v:+%d", f.SID, f.Unordered, f.Seq-mid0)
					}
				}
				sb.WriteString(")")
			case c.Type == vfCtReconfig:
				for _, pr := range c.Params {
					if rq, ok := vfParseResetReq(pr); ok {
						sids := append([]uint16(nil), rq.SIDs...)
						sort.Slice(sids, func(i, j int) bool { return sids[i] < sids[j] })
						fmt.Fprintf(&sb, " RECONFIG(req+%d last+%d %v)", rq.ReqSeq-rsn0[sender], rq.LastTSN-init[sender], sids)
					} else if seq, r, ok := vfParseResetResp(pr); ok {
						fmt.Fprintf(&sb, " RECONFIG(resp+%d %d)", seq-rsn0[1-sender], r)
					}
				}
			case c.Type == vfCtShutdown:
				fmt.Fprintf(&sb, " SHUTDOWN(cum+%d)", c.CumTSN-init[1-sender]+1)
			case c.Type == vfCtInit || c.Type == vfCtInitAck:
				fmt.Fprintf(&sb, " %s(arwnd=%d)", c.kind(), c.ARwnd)
			case c.Type == vfCtHeartbeat || c.Type == vfCtHeartbeatAck || c.Type == vfCtCookieEcho:
				fmt.Fprintf(&sb, " %s(len=%d)", c.kind(), len(c.Val))
			default:
				fmt.Fprintf(&sb, " %s", c.kind())
			}
		}
		snap := ""
		if e.Snap != nil && e.Kind == vfWrWrite {
			snap = fmt.Sprintf("[side %d: cwnd=%d rwnd=%d ssth=%d infl=%d/%d pend=%d fr=%v srtt=%.3f]", who, e.Snap.CWND, e.Snap.RWND, e.Snap.SSThresh, e.Snap.InflightN, e.Snap.InflightB, e.Snap.PendingN, e.Snap.InFR, e.Snap.SRTT)
		}
		// Events of one virtual instant are compared as a set (two timers that expire at the same instant run
		// in an order the Go scheduler picks), followed by the last snapshot of each side at that instant.
		if len(groups) == 0 || groups[len(groups)-1].t != e.T {
			groups = append(groups, &vfTraceGroup{t: e.T})
		}
		g := groups[len(groups)-1]
		g.lines = append(g.lines, sb.String())
		if snap != "" {
			g.snap[who] = snap
		}
	}
	for _, g := range groups {
		sort.Strings(g.lines)
		out = append(out, fmt.Sprintf("%v %s %s%s", g.t, strings.Join(g.lines, " | "), g.snap[0], g.snap[1]))
	}
	// deliveries
	for _, run := range w.allRuns() {
		run.mu.Lock()
		var sb strings.Builder
		fmt.Fprintf(&sb, "reads dir%d sid%d:", run.cfg.Dir, run.cfg.SID)
		for _, rd := range run.reads {
			fmt.Fprintf(&sb, " %v/%d/%x", rd.T, rd.N, rd.Hash&0xffff)
		}
		fmt.Fprintf(&sb, " end=%v", run.readEnd)
		run.mu.Unlock()
		out = append(out, sb.String())
	}

	return out
}

func vfRunWrapVariant(t *testing.T, spec *vfSpec, res *vfRes, v vfWrapVariant, name string) (trace []string, crossed bool, ok bool) {
	t.Helper()
	sp := *spec
	sp.A.InitTSN, sp.B.InitTSN = v.tsnA, v.tsnB
	sp.ID = spec.ID + "-" + name
	vfRunBubble(t, sp.ID, func(t *testing.T) {
		sim := vfNewSim(t, &sp, res)
		sim.noInv = false
		if !sim.start() {
			sim.teardown()
			sim.finalLeakCheck()

			return
		}
		w := sim.newWorkNoAccept()
		if v.presetSeq {
			for side := 0; side < 2; side++ {
				a := sim.getAssoc(side)
				a.lock.Lock()
				a.myNextRSN = v.rsn
				a.lock.Unlock()
			}
		}
		for _, sc := range sp.Streams {
			var sts [2]*Stream
			for side := 0; side < 2; side++ {
				st, err := sim.getAssoc(side).OpenStream(sc.SID, PayloadTypeWebRTCBinary)
				if err != nil {
					return
				}
				sts[side] = st
				if v.presetSeq {
					st.lock.Lock()
					st.sequenceNumber = v.ssn
					st.nextOrderedMID, st.nextUnorderedMID = v.mid, v.mid
					st.reassemblyQueue.nextSSN = v.ssn
					st.reassemblyQueue.nextMID = v.mid
					st.lock.Unlock()
				}
			}
			w.addStreamWith(sc, 0, func(side int) *Stream { return sts[side] })
		}
		w.waitWriters(30 * time.Minute)
		drained := w.waitDrained(30 * time.Minute)
		if sp.x("shutdown", 0) == 1 && drained {
			ctx, cancel := vfCtxTimeout(10 * time.Minute)
			_ = sim.A().Shutdown(ctx)
			cancel()
			time.Sleep(2 * time.Second)
		}
		sim.quiesce()
		for side := 0; side < 2; side++ {
			sn := sim.snap(side)
			trace = append(trace, fmt.Sprintf("final side %d: state=%d cwnd=%d ssth=%d rwnd=%d infl=%d pend=%d srtt=%.4f rto=%.2f next+%d cum+%d peer+%d",
				side, sn.State, sn.CWND, sn.SSThresh, sn.RWND, sn.InflightN, sn.PendingN, sn.SRTT, sn.RTO,
				sn.NextTSN-[2]uint32{v.tsnA, v.tsnB}[side], sn.CumAck-[2]uint32{v.tsnA, v.tsnB}[side]+1, sn.PeerLastTSN-[2]uint32{v.tsnB, v.tsnA}[side]+1))
		}
		sim.teardown()
		w.waitReaders(10 * time.Second)
		sim.finalLeakCheck()
		mo := sim.runMonitors(vfMonCfg{})
		for side := 0; side < 2; side++ {
			if sh := mo.sh[side]; sh.haveInit && uint64(sh.initTSN)+uint64(len(sh.tx)) > 1<<32 && len(sh.tx) > 0 {
				crossed = true
			}
		}
		for _, run := range w.allRuns() {
			prop := "C01"
			if run.cfg.RelType != ReliabilityTypeReliable || run.cfg.Unordered {
				prop = "C06"
			}
			vfCheckDelivery(res, prop, run, drained)
		}
		trace = append(vfNormTrace(sim, v, w), trace...)
		ok = true
	})

	return trace, crossed, ok
}

func vfRunWrapDiff(t *testing.T, spec *vfSpec, res *vfRes) {
	ref := vfWrapVariant{name: "ref", tsnA: 100000, tsnB: 200000}
	r := vfNewRand(spec.Seed ^ 0x16)
	t1, _, ok1 := vfRunWrapVariant(t, spec, res, ref, "ref1")
	t2, _, ok2 := vfRunWrapVariant(t, spec, res, ref, "ref2")
	if !ok1 || !ok2 {
		res.inconclusive("reference run did not establish")

		return
	}
	if d := vfFirstDiff(t1, t2); d >= 0 {
		res.inconclusive(fmt.Sprintf("two reference runs differ at line %d (lock-step run not reproducible): %q vs %q", d, vfIdx(t1, d), vfIdx(t2, d)))

		return
	}
	res.count("c16_reference_pairs", 1)
	win := uint32(8448)
	ks := []uint32{1, 63, 64, 65, win/2 - 1, win/2 + 1, win - 1, win, uint32(r.Intn(int(win)))} //nolint:gosec
	nv := int(spec.x("variants", 4))
	for i := 0; i < nv; i++ {
		v := vfWrapVariant{name: fmt.Sprintf("shift%d", i)}
		switch i % 4 {
		case 0:
			v.tsnA, v.tsnB = ^uint32(0)-ks[r.Intn(len(ks))]+1, 200000
		case 1:
			v.tsnA, v.tsnB = 100000, ^uint32(0)-ks[r.Intn(len(ks))]+1
		case 2:
			v.tsnA, v.tsnB = ^uint32(0)-ks[r.Intn(len(ks))]+1, ^uint32(0)-ks[r.Intn(len(ks))]+1
		default:
			v.tsnA, v.tsnB = 1<<31-ks[r.Intn(len(ks))], r.Uint32()
		}
		tr, crossed, ok := vfRunWrapVariant(t, spec, res, v, v.name)
		if !ok {
			res.violate("C16", "assoc/no-establish", "initial TSNs (%d,%d): association did not establish while the reference did", v.tsnA, v.tsnB)

			continue
		}
		res.count("c16_shifted_runs", 1)
		if crossed {
			res.seen("tsn-wrap-crossed")
			res.count("c16_wrap_crossed", 1)
		}
		if d := vfFirstDiff(t1, tr); d >= 0 {
			// goroutine scheduling inside the bubble is not fully deterministic (e.g. whether a reader has
			// consumed a message before the SACK is built). A dependence on the initial TSN is: repeat the
			// shifted run and accept the divergence only if it reproduces at the same line with the same content.
			// Two retransmission timers of one endpoint expiring at the same virtual instant run in an order the
			// scheduler picks, which can change the following packets in either run. So the divergence counts only
			// if it is unanimous: six more reference runs all agree with the reference up to and including line d,
			// and seven more shifted runs all diverge at line d with the same content.
			if !vfUnanimous(t, spec, res, ref, v, t1, tr, d) {
				res.count("c16_noisy_divergences", 1)

				continue
			}
			res.violate("C16", "assoc/diverge/tsn", "same scenario, same network behaviour: initial TSNs (%d,%d) diverge (reproducibly, 8 of 8 runs each) from the reference (100000,200000) at normalised trace line %d of %d:\n  reference: %s\n  shifted:   %s", v.tsnA, v.tsnB, d, len(t1), vfIdx(t1, d), vfIdx(tr, d))
			for j := d - 3; j < d+3; j++ {
				if j >= 0 {
					res.witness("ref[%d] %s", j, vfIdx(t1, j))
					res.witness("shf[%d] %s", j, vfIdx(tr, j))
				}
			}

			break
		}
		res.addSig(fmt.Sprintf("tsn|%s|%s|crossed%v", []string{"a", "b", "both", "half"}[i%4], spec.Kind, crossed))
	}
	// SSN / MID / RSN counters just below their wrap on both ends
	vs := vfWrapVariant{name: "seq", tsnA: 100000, tsnB: 200000, presetSeq: true, ssn: 65535 - uint16(r.Intn(4)), mid: ^uint32(0) - uint32(r.Intn(4)), rsn: ^uint32(0) - uint32(r.Intn(3))} //nolint:gosec
	v0 := vs
	v0.name, v0.ssn, v0.mid, v0.rsn = "seq0", 100, 1000, 5000
	ta, _, oka := vfRunWrapVariant(t, spec, res, v0, "seq0")
	tb, _, okb := vfRunWrapVariant(t, spec, res, vs, "seqwrap")
	if oka && okb {
		res.count("c16_seq_pairs", 1)
		if d := vfFirstDiff(ta, tb); d >= 0 {
			if vfUnanimous(t, spec, res, v0, vs, ta, tb, d) {
				res.violate("C16", "assoc/diverge/seq", "same scenario with SSN/MID/RSN starting at (%d,%d,%d) diverges (reproducibly, 8 of 8 runs each) from the run starting at (100,1000,5000) at normalised trace line %d:\n  reference: %s\n  wrapped:   %s", vs.ssn, vs.mid, vs.rsn, d, vfIdx(ta, d), vfIdx(tb, d))
			} else {
				res.count("c16_noisy_divergences", 1)
			}
		} else {
			res.addSig("seq|" + spec.Kind)
		}
	}
	res.res.Nontrivial = res.get("c16_wrap_crossed") > 0
	res.res.Sample = map[string]any{"kind": "wrap-differential", "scenario": spec.Kind, "trace_lines": len(t1), "shifted_runs": res.get("c16_shifted_runs"), "crossed_wrap": res.get("c16_wrap_crossed"), "streams": spec.Streams, "link": spec.Link}
}

// vfUnanimous re-runs both variants: true iff every further run of the base variant equals base through line d and
// every further run of the other variant first differs from base at line d with the content seen in other.
func vfUnanimous(t *testing.T, spec *vfSpec, res *vfRes, vBase, vOther vfWrapVariant, base, other []string, d int) bool {
	for k := 0; k < 7; k++ {
		if k < 6 {
			tb, _, ok := vfRunWrapVariant(t, spec, res, vBase, fmt.Sprintf("%s-confirm%d", vBase.name, k))
			if dd := vfFirstDiff(base, tb); !ok || (dd >= 0 && dd <= d) {
				return false
			}
		}
		to, _, ok := vfRunWrapVariant(t, spec, res, vOther, fmt.Sprintf("%s-confirm%d", vOther.name, k))
		if !ok || vfFirstDiff(base, to) != d || vfIdx(to, d) != vfIdx(other, d) {
			return false
		}
	}
	res.count("c16_unanimous_divergences", 1)

	return true
}

func vfFirstDiff(a, b []string) int {
	for i := range a {
		if i >= len(b) || a[i] != b[i] {
			return i
		}
	}
	if len(b) > len(a) {
		return len(a)
	}

	return -1
}

func vfGenWrapSpec(idx int, seed uint64) vfSpec {
	r := vfNewRand(vfHash(seed, uint64(idx), 0xC16))
	sp := vfSpec{Prop: "C16", Kind: []string{"bulk", "pr", "reset", "small"}[idx%4], ID: fmt.Sprintf("C16-wrap-%d", idx), Seed: r.Uint64()}
	il := r.Intn(2) == 0
	sp.A = vfSideCfg{IL: il, Tag: 0x1111, RTOMaxMs: 5000}
	sp.B = vfSideCfg{IL: il, Tag: 0x2222, RTOMaxMs: 5000}
	if il && r.Intn(2) == 0 {
		sp.A.Sched, sp.B.Sched = "rr", "rr"
	}
	sp.Procs = 1
	l := vfLinkCfg{DelayUs: 10000, Lockstep: true}
	switch r.Intn(4) {
	case 0:
		l.LossPm = r.Pick(30, 100)
	case 1:
		l.JitterUs, l.DupPm = 30000, r.Pick(0, 100)
	case 2:
		l.LossPm, l.JitterUs = 50, 15000
	}
	sp.Link = l
	sp.A.MaxMsg, sp.B.MaxMsg = 20000, 20000
	switch sp.Kind {
	case "bulk":
		sp.Streams = []vfStreamCfg{
			{SID: 1, Dir: 0, NMsgs: 60 + r.Intn(100), SizeMode: "mixed", Reader: "fast", GapUs: 500},
			{SID: 2, Dir: 1, NMsgs: 30, SizeMode: "small", Reader: "fast", GapUs: 2000},
		}
	case "pr":
		sp.Streams = []vfStreamCfg{
			{SID: 1, Dir: 0, NMsgs: 80, SizeMode: "small", Reader: "fast", GapUs: 1000, RelType: ReliabilityTypeRexmit, RelVal: 0, Unordered: r.Intn(2) == 0},
			{SID: 2, Dir: 0, NMsgs: 40, SizeMode: "mixed", Reader: "fast", GapUs: 3000},
		}
		if sp.Link.LossPm == 0 {
			sp.Link.LossPm = 80
		}
	case "reset":
		sp.Streams = []vfStreamCfg{
			{SID: 1, Dir: 0, NMsgs: 30, SizeMode: "small", Reader: "fast", GapUs: 1000, Close: true},
			{SID: 2, Dir: 0, NMsgs: 50, SizeMode: "mixed", Reader: "fast", GapUs: 2000},
			{SID: 3, Dir: 1, NMsgs: 20, SizeMode: "small", Reader: "fast", GapUs: 1000, Close: true},
		}
	default:
		// thousands of tiny messages: many TSNs, wide gaps
		sp.Streams = []vfStreamCfg{{SID: 1, Dir: 0, NMsgs: 1500 + r.Intn(1500), SizeMode: "tiny", Reader: "fast"}}
		sp.Link.LossPm = r.Pick(20, 60)
	}
	sp.X = map[string]int64{"variants": 4, "shutdown": int64(r.Intn(2)), "lockstep_app": 1}

	return sp
}

func init() { //nolint:gochecknoinits
	vfRegister(&vfProperty{
		id: "C16",
		list: func(tier string, seed uint64, race bool) []vfSpec {
			var out []vfSpec
			if !race {
				// 16-bit helpers: exhaustive, 64 slices of 1024 values of a
				for i := 0; i < 64; i++ {
					out = append(out, vfSpec{Prop: "C16", Kind: "helpers", ID: fmt.Sprintf("C16-sna16-%d", i), Seed: uint64(i), //nolint:gosec
						X: map[string]int64{"lo": int64(i * 1024), "hi": int64((i + 1) * 1024)}, XS: map[string]string{"space": "16"}})
				}
				// 32-bit helpers: all differences (thorough) or every 256th (quick), 64 slices
				stride := int64(vfTierN(tier, 256, 1))
				for i := 0; i < 64; i++ {
					out = append(out, vfSpec{Prop: "C16", Kind: "helpers", ID: fmt.Sprintf("C16-sna32-%d", i), Seed: vfHash(seed, uint64(i)), //nolint:gosec
						X: map[string]int64{"lo": int64(i) << 26, "hi": int64(i+1) << 26, "stride": stride}, XS: map[string]string{"space": "32"}})
				}
			}
			nb := vfTierN(tier, 14, 400)
			nw := vfTierN(tier, 140, 1500)
			if race {
				nb, nw = 2, vfTierN(tier, 12, 60)
			}
			for i := 0; i < nb; i++ {
				out = append(out, vfSpec{Prop: "C16", Kind: "component-shift", ID: fmt.Sprintf("C16-shift-%d", i), Seed: vfHash(seed, uint64(i), 0x5417), X: map[string]int64{"seqs": 200}})
			}
			for i := 0; i < nw; i++ {
				sp := vfGenWrapSpec(i, seed)
				if tier == "thorough" {
					sp.X["variants"] = 12
				}
				out = append(out, sp)
			}

			return out
		},
		run: func(t *testing.T, spec *vfSpec, res *vfRes) {
			switch spec.Kind {
			case "helpers":
				vfRunHelperBatch(spec, res)
			case "component-shift":
				vfRunShiftBatch(spec, res)
			default:
				vfRunWrapDiff(t, spec, res)
			}
		},
	})
}
