//go:build verif

package sctp

// C01 — reliable ordered streams: exactly once, in order, intact.
// C02 — no permanent stall after the network heals.
// Both use the generic transfer scenario; they differ in fault prefixes and in
// which verdicts they own.

import (
	"fmt"
	"testing"
)

// vfThoroughScale multiplies the thorough-tier list sizes of a property so that each thorough check explores
// for minutes rather than seconds (measured: every check stays below about ten minutes on 16 cores).
var vfThoroughScale = map[string]int{ //nolint:gochecknoglobals
	"C01": 6, "C02": 6, "C03": 4, "C05": 3, "C06": 5, "C07": 5, "C10": 5, "C11": 4, "C12": 4, "C13": 5, "C14": 4, "C15": 2, "C17": 4, "C18": 6, "C19": 5,
}

var vfCurrentProp string //nolint:gochecknoglobals // set by TestVF before the scenario list is built

func vfTierN(tier string, quick, thorough int) int {
	if tier == "thorough" {
		if k := vfThoroughScale[vfCurrentProp]; k > 1 && thorough > 0 {
			return thorough * k
		}

		return thorough
	}

	return quick
}

func vfGenTransferSpec(prop string, idx int, seed uint64, harsh int, wrapPm int) vfSpec {
	r := vfNewRand(vfHash(seed, uint64(idx), 0xC01))
	sp := vfSpec{Prop: prop, Kind: "transfer", ID: fmt.Sprintf("%s-xfer-%d", prop, idx), Seed: r.Uint64()}
	sp.A, sp.B = vfSampleSides(r, wrapPm)
	sp.Link = vfSampleLink(r, harsh)
	sp.Roles = []string{"cs", "cs", "cs", "cc", "snap"}[r.Intn(5)]
	nA := 1 + r.Intn(4)
	nB := r.Intn(4)
	if r.Intn(6) == 0 {
		nA = 5 + r.Intn(4)
	}
	il := sp.A.IL && sp.B.IL
	sp.A.MaxMsg = vfEffMaxMsg(&sp.A, &sp.B, nA, il)
	sp.B.MaxMsg = vfEffMaxMsg(&sp.B, &sp.A, nB, il)
	modes := []string{"mixed", "mixed", "small", "boundary", "big", "tiny", "max"}
	readers := []string{"fast", "fast", "fast", "slow", "short"}
	budget := 40
	for i := 0; i < nA+nB; i++ {
		dir := 0
		sid := uint16(i + 1) //nolint:gosec
		if i >= nA {
			dir = 1
			// half of the B->A streams reuse an A->B identifier (bidirectional stream)
			if r.Intn(2) == 0 {
				sid = uint16(1 + r.Intn(nA)) //nolint:gosec
			}
		}
		dup := false
		for _, s := range sp.Streams {
			if s.SID == sid && s.Dir == dir {
				dup = true
			}
		}
		if dup {
			continue
		}
		sc := vfStreamCfg{
			SID: sid, Dir: dir, NMsgs: 5 + r.Intn(budget), SizeMode: modes[r.Intn(len(modes))],
			Reader: readers[r.Intn(len(readers))],
		}
		if sc.SizeMode == "max" || sc.SizeMode == "big" {
			sc.NMsgs = 3 + r.Intn(8)
		}
		if sc.SizeMode == "tiny" && r.Intn(2) == 0 {
			sc.NMsgs = 100 + r.Intn(300)
		}
		switch r.Intn(4) {
		case 0:
			sc.GapUs = int64(r.Pick(100, 1000, 5000, 20000))
		case 1:
			sc.GapUs = -int64(r.Pick(2000, 50000))
		}
		sp.Streams = append(sp.Streams, sc)
	}
	if r.Intn(4) == 0 {
		sp.Yield = r.Pick(50, 200, 500)
	}
	sp.Procs = r.Pick(1, 2, 4, 4)

	return sp
}

func vfMonDefault(spec *vfSpec) vfMonCfg {
	mc := vfMonCfg{checkAckDelay: true}
	if spec.Yield > 0 {
		mc.ackSlack = 0
		mc.checkAckDelay = false
	}
	// more than 16 new streams at the same instant overflow the accept backlog: dropped DATA owes no ack
	n := [2]int{}
	for _, s := range spec.Streams {
		n[s.Dir]++
	}
	if n[0] > 12 || n[1] > 12 {
		mc.checkAckDelay = false
	}

	return mc
}

func vfXferSig(spec *vfSpec, res *vfRes) string {
	fr := "DATA"
	if spec.A.IL && spec.B.IL {
		fr = "I-DATA/" + spec.A.Sched
	}

	return fmt.Sprintf("%s|%s|mtu%d/%d|buf%d/%d|zc%v%v|%s", fr, spec.Roles, spec.A.MTU, spec.B.MTU, spec.A.RecvBuf, spec.B.RecvBuf, spec.A.ZC, spec.B.ZC, res.mechs())
}

func vfNoteWrap(spec *vfSpec, res *vfRes, mo *vfMonOut) {
	if mo == nil {
		return
	}
	for side := 0; side < 2; side++ {
		sh := mo.sh[side]
		if !sh.haveInit || len(sh.tx) == 0 {
			continue
		}
		if uint64(sh.initTSN)+uint64(len(sh.tx)) > 1<<32 {
			res.seen("tsn-wrap")
		}
	}
}

func init() { //nolint:gochecknoinits
	vfRegister(&vfProperty{
		id: "C01",
		list: func(tier string, seed uint64, race bool) []vfSpec {
			n := vfTierN(tier, 320, 5000)
			if race {
				n = vfTierN(tier, 48, 300)
			}
			out := make([]vfSpec, 0, n)
			for i := 0; i < n; i++ {
				out = append(out, vfGenTransferSpec("C01", i, seed, 2, 250))
			}

			return out
		},
		run: func(t *testing.T, spec *vfSpec, res *vfRes) {
			out := vfRunTransfer(t, spec, res, vfXferOpts{mon: vfMonDefault(spec), hsProp: "C04"})
			vfNoteWrap(spec, res, out.mon)
			if len(spec.Streams) > 1 {
				res.seen("multi-stream")
			}
			res.res.Nontrivial = res.has("retransmission") && res.has("fragmented")
			res.res.Sig = vfXferSig(spec, res)
			if out.work != nil && len(out.stats) > 0 {
				res.res.Sample = map[string]any{
					"streams": len(spec.Streams), "link": spec.Link, "written": res.get("msgs_written"),
					"delivered": res.get("msgs_delivered"), "packets": res.get("wire_packets"), "mechanisms": res.mechs(),
				}
			}
		},
	})
	vfRegister(&vfProperty{
		id: "C02",
		list: func(tier string, seed uint64, race bool) []vfSpec {
			n := vfTierN(tier, 160, 2000)
			if race {
				n = vfTierN(tier, 24, 150)
			}
			out := make([]vfSpec, 0, n)
			for i := 0; i < n; i++ {
				out = append(out, vfGenStallSpec(i, seed))
			}
			out = append(out, vfGenGateSpecs(tier, seed, race)...)

			return out
		},
		run: func(t *testing.T, spec *vfSpec, res *vfRes) {
			if spec.Kind == "bw-probe-reset" {
				vfRunGateProbe(t, spec, res)

				return
			}
			out := vfRunTransfer(t, spec, res, vfXferOpts{mon: vfMonDefault(spec), hsProp: "C04"})
			vfNoteWrap(spec, res, out.mon)
			res.res.Nontrivial = res.has("T3") && res.has("outstanding-at-heal")
			res.res.Sig = fmt.Sprintf("%s|t3=%d|%s", spec.Kind, vfBucket(res.get("c10_t3")), vfXferSig(spec, res))
			res.res.Sample = map[string]any{
				"kind": spec.Kind, "link": spec.Link, "t3_expiries": res.get("c10_t3"), "outstanding_at_heal": res.get("heal_outstanding"),
				"written": res.get("msgs_written"), "delivered": res.get("msgs_delivered"), "mechanisms": res.mechs(),
			}
		},
	})
}

func vfBucket(n int64) int64 {
	switch {
	case n <= 0:
		return 0
	case n <= 2:
		return n
	case n <= 5:
		return 5
	case n <= 10:
		return 10
	default:
		return 99
	}
}

// vfGenStallSpec: fault prefixes chosen to reach the mechanisms C02 names.
func vfGenStallSpec(idx int, seed uint64) vfSpec {
	r := vfNewRand(vfHash(seed, uint64(idx), 0xC02))
	sp := vfGenTransferSpec("C02", idx, seed^0x22, 0, 200)
	sp.ID = fmt.Sprintf("C02-stall-%d", idx)
	kinds := []string{"blackout", "blackout", "sackloss", "zerowindow", "collapse", "reorder-span", "tinybuf", "many-streams", "oneway", "zerowin-hole"}
	sp.Kind = kinds[idx%len(kinds)]
	sp.Link = vfLinkCfg{DelayUs: int64(r.Pick(5000, 10000, 20000))}
	if r.Intn(2) == 0 {
		sp.A.RTOMaxMs, sp.B.RTOMaxMs = 3000, 3000
	}
	switch sp.Kind {
	case "blackout":
		// total blackout long enough for several back-offs, starting shortly after establishment
		from := int64(20000 + r.Intn(300000))
		dur := int64(r.Pick(8, 20, 40, 70)) * 1000000
		sp.Link.Blackouts = [][3]int64{{2, from, from + dur}}
		sp.Link.HealUs = from + dur
	case "oneway":
		from := int64(20000 + r.Intn(300000))
		dur := int64(r.Pick(8, 20, 40)) * 1000000
		sp.Link.Blackouts = [][3]int64{{int64(r.Intn(2)), from, from + dur}}
		sp.Link.HealUs = from + dur
	case "sackloss":
		sp.Link.SackLossPm = r.Pick(700, 900, 1000)
		sp.Link.HealUs = int64(r.Pick(5, 15, 30)) * 1000000
	case "collapse":
		sp.Link.LossPm = r.Pick(500, 700)
		sp.Link.HealUs = int64(r.Pick(10, 30, 60)) * 1000000
	case "zerowindow":
		sp.B.RecvBuf = uint32(r.Pick(4096, 8192, 16384, 65536)) //nolint:gosec
		sp.A.MaxMsg = sp.B.RecvBuf / 4
		sp.Streams = nil
		n := 1 + r.Intn(3)
		for i := 0; i < n; i++ {
			sp.Streams = append(sp.Streams, vfStreamCfg{SID: uint16(i + 1), Dir: 0, NMsgs: 60 + r.Intn(100), SizeMode: "small", Reader: "pause"}) //nolint:gosec
		}
		if sp.A.IL && sp.B.IL {
			sp.A.MaxMsg = sp.B.RecvBuf / 4 / uint32(n) //nolint:gosec
		}
		sp.Link.LossPm = r.Pick(0, 0, 50)
		sp.Link.HealUs = 0
		// blocking writes through a zero-window episode: the gate must reopen when the probe that carried the last
		// pending chunk is acknowledged
		sp.A.BlockWrite = r.Intn(2) == 0
		if sp.A.BlockWrite && r.Intn(2) == 0 {
			for i := range sp.Streams {
				sp.Streams[i].SizeMode = "tiny" // single-chunk messages: the probe is the whole message
			}
		}
	case "zerowin-hole":
		// one TSN is lost several times while everything behind it arrives: the receive buffer fills with data
		// that cannot be delivered, the window closes, and the retransmitted gap filler must still be accepted
		sp.Roles = []string{"cs", "cc"}[r.Intn(2)]
		sp.B.RecvBuf = uint32(r.Pick(4096, 8192, 16384)) //nolint:gosec
		sp.A.MTU, sp.B.MTU = 0, 0
		// message size divides the buffer, SACKs are reordered and duplicated: a stale SACK makes the sender
		// overshoot by exactly the hole's size, so that the credit is 0 when the gap filler finally arrives
		sp.Streams = []vfStreamCfg{{SID: 1, Dir: 0, NMsgs: 80 + r.Intn(100), SizeMode: []string{"q256", "q256", "small"}[r.Intn(3)], Reader: "fast"}}
		sp.A.MaxMsg = 1000
		sp.Link.JitterUs = sp.Link.DelayUs * int64(r.Pick(1, 3))
		sp.Link.DupPm = r.Pick(50, 150)
		sp.Link.HealUs = int64(r.Pick(20, 40)) * 1000000
		off := uint32(1 + r.Intn(6)) //nolint:gosec
		if r.Intn(3) != 0 {
			// the hole sits just below the 2^32 wrap, what arrives behind it just above
			sp.A.InitTSN = ^uint32(0) - off - uint32(r.Intn(3)) //nolint:gosec
		}
		sp.Link.HoleTSN = sp.A.InitTSN + off
		sp.Link.HoleTimes = 2 + r.Intn(3)
		sp.A.MinCwnd = uint32(r.Pick(0, 20000)) //nolint:gosec
	case "reorder-span":
		// thousands of 1-byte messages, first packets delayed for a long time: reordering spans a large part of the tracking window
		sp.Streams = []vfStreamCfg{{SID: 1, Dir: 0, NMsgs: 1500 + r.Intn(2500), SizeMode: "one", Reader: "fast"}}
		sp.Link.Script = []vfFault{
			{Dir: 0, Kind: "DATA", Nth: 1 + r.Intn(3), Act: "drop"},
			{Dir: 0, Kind: "I-DATA", Nth: 1 + r.Intn(3), Act: "drop"},
		}
		sp.Link.JitterUs = sp.Link.DelayUs * int64(r.Pick(0, 2, 10))
		sp.Link.LossPm = r.Pick(0, 20)
		sp.A.MinCwnd = 0
	case "tinybuf":
		sp.B.RecvBuf = uint32(r.Pick(1500, 2048, 4096, 8192)) //nolint:gosec
		sp.A.RecvBuf = sp.B.RecvBuf
		il := sp.A.IL && sp.B.IL
		n := 1 + r.Intn(3)
		sp.Streams = nil
		for i := 0; i < n; i++ {
			sp.Streams = append(sp.Streams, vfStreamCfg{SID: uint16(i + 1), Dir: i % 2, NMsgs: 30 + r.Intn(60), SizeMode: "small", Reader: []string{"fast", "slow"}[r.Intn(2)]}) //nolint:gosec
		}
		sp.A.MaxMsg = vfEffMaxMsg(&sp.A, &sp.B, n, il)
		sp.B.MaxMsg = vfEffMaxMsg(&sp.B, &sp.A, n, il)
		sp.Link.LossPm = r.Pick(0, 50, 150)
		sp.Link.JitterUs = sp.Link.DelayUs
	case "many-streams":
		// more than 16 new streams at once: accept backlog drops, retransmission must recover
		n := 18 + r.Intn(20)
		sp.Streams = nil
		for i := 0; i < n; i++ {
			sp.Streams = append(sp.Streams, vfStreamCfg{SID: uint16(i + 1), Dir: 0, NMsgs: 2 + r.Intn(4), SizeMode: "small", Reader: "fast"}) //nolint:gosec
		}
		sp.A.MaxMsg = vfEffMaxMsg(&sp.A, &sp.B, n, sp.A.IL && sp.B.IL)
		sp.Link.LossPm = r.Pick(0, 50)
	}

	return sp
}
