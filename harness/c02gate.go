//go:build verif

package sctp

// C02 — the blocking-write gate after a zero window episode.
//
// In blocking-write mode one write closes a gate that is reopened by the call that empties the pending queue. This
// scenario builds the history in which the queue is emptied by a stream reset marker on its own: the last DATA chunk
// left as a zero window probe while the marker (Stream.Close on another stream) was queued behind it. Afterwards the
// peer reads, the window is open, nothing is queued: a write must go through.

import (
	"bytes"
	"fmt"
	"testing"
	"time"
)

func vfGenGateSpecs(tier string, seed uint64, race bool) []vfSpec {
	var out []vfSpec
	reps := vfTierN(tier, 2, 40)
	if race {
		reps = 1
	}
	idx := 0
	for rep := 0; rep < reps; rep++ {
		for _, il := range []bool{false, true} {
			for _, unord := range []int64{0, 1} {
				r := vfNewRand(vfHash(seed, uint64(idx), 0xC02A))
				sp := vfSpec{Prop: "C02", Kind: "bw-probe-reset", ID: fmt.Sprintf("C02-gate-%d", idx), Seed: r.Uint64()}
				sp.A = vfSideCfg{IL: il, InitTSN: vfPickTSN(r, r.Intn(3)), Tag: r.Uint32() | 1, BlockWrite: true, MaxMsg: 3000}
				sp.B = vfSideCfg{IL: il, InitTSN: r.Uint32(), Tag: r.Uint32() | 1, RecvBuf: 4096, MaxMsg: 20000}
				sp.Link = vfLinkCfg{DelayUs: int64(r.Pick(1000, 10000, 40000))}
				sp.X = map[string]int64{"unordered": unord, "size": int64(2100 + r.Intn(900)), "gap_us": int64(r.Pick(100, 1000, 5000)),
					"same_stream": int64(r.Intn(2))}
				out = append(out, sp)
				idx++
			}
		}
	}

	return out
}

//nolint:gocognit,cyclop
func vfRunGateProbe(t *testing.T, spec *vfSpec, res *vfRes) {
	vfRunBubble(t, spec.ID, func(t *testing.T) {
		sim := vfNewSim(t, spec, res)
		if !sim.start() {
			res.inconclusive("handshake failed")
			sim.teardown()
			sim.finalLeakCheck()

			return
		}
		defer func() {
			sim.teardown()
			sim.finalLeakCheck()
		}()
		a, b := sim.A(), sim.B()
		wst, err := a.OpenStream(1, PayloadTypeWebRTCBinary)
		aux, err2 := a.OpenStream(2, PayloadTypeWebRTCBinary)
		rst, err3 := b.OpenStream(1, PayloadTypeWebRTCBinary)
		if err != nil || err2 != nil || err3 != nil {
			res.inconclusive("OpenStream failed")

			return
		}
		wst.SetReliabilityParams(spec.x("unordered", 0) == 1, ReliabilityTypeReliable, 0)
		size := int(spec.x("size", 3000))
		key := vfMsgKey(spec.Seed, 0, 1, 0)
		write := func(i int) error {
			_, werr := wst.WriteSCTP(vfMakeMsg(key, i, size), PayloadTypeWebRTCBinary)

			return werr
		}
		// m0 goes in flight and leaves less than one message of window; m1 waits in the pending queue (no probe:
		// m0 is outstanding); the marker is queued behind m1
		if err := write(0); err != nil {
			res.violate("C18", "write/ordinary/rejected", "gate scenario: write #0 failed: %v", err)

			return
		}
		if err := write(1); err != nil {
			res.violate("C18", "write/ordinary/rejected", "gate scenario: write #1 failed: %v", err)

			return
		}
		time.Sleep(time.Duration(spec.x("gap_us", 1000)) * time.Microsecond)
		probes := func() int64 {
			n := int64(0)
			sim.mu.Lock()
			for _, h := range sim.hookLog {
				if h.Side == 0 && h.Ev == vfEvAdmitProbe {
					n++
				}
			}
			sim.mu.Unlock()

			return n
		}
		probesBefore := probes()
		if spec.x("same_stream", 0) == 1 {
			// the marker of the written stream itself would end it; a third stream carries it instead
			if s3, e := a.OpenStream(3, PayloadTypeWebRTCBinary); e == nil {
				_ = s3.Close()
			}
		} else {
			_ = aux.Close()
		}
		// m0 is acknowledged (the peer does not read: the window stays below one message), m1 leaves as a zero
		// window probe, the marker is taken by a later call
		time.Sleep(3 * time.Second)
		a.lock.RLock()
		pend, infl := a.pendingQueue.size(), a.inflightQueue.size()
		a.lock.RUnlock()
		if probes() == probesBefore || pend != 0 {
			res.inconclusive(fmt.Sprintf("the planned history did not arise (probes %d, pending %d, in flight %d)", probes()-probesBefore, pend, infl))

			return
		}
		res.count("c02_gate_histories", 1)
		// the peer reads; nothing is pending: the next write has nothing to wait for
		got := make(chan [][]byte, 1)
		go func() {
			var msgs [][]byte
			buf := make([]byte, 1<<16)
			_ = rst.SetReadDeadline(time.Now().Add(10 * time.Minute))
			for len(msgs) < 3 {
				n, _, rerr := rst.ReadSCTP(buf)
				if rerr != nil {
					break
				}
				msgs = append(msgs, append([]byte(nil), buf[:n]...))
			}
			_ = rst.SetReadDeadline(time.Time{})
			got <- msgs
		}()
		limit := 5 * time.Minute
		_ = wst.SetWriteDeadline(time.Now().Add(limit))
		t0 := sim.net.now()
		werr := write(2)
		el := sim.net.now() - t0
		_ = wst.SetWriteDeadline(time.Time{})
		if werr != nil {
			res.violate("C02", "stall/blockwrite-gate", "blocking write with an empty pending queue, an established association and a reading peer was still blocked after %v (%v): the gate closed by an earlier write was never reopened (its last chunk left as a zero window probe, a stream reset marker behind it emptied the queue)", el, werr)
			// let the reader end
			_ = rst.SetReadDeadline(time.Now())
			<-got

			return
		}
		msgs := <-got
		if len(msgs) != 3 {
			res.violate("C02", "stall/undelivered", "gate scenario: %d of 3 messages delivered within 10 min of virtual time", len(msgs))

			return
		}
		if spec.x("unordered", 0) == 0 {
			for i, m := range msgs {
				if !bytes.Equal(m, vfMakeMsg(key, i, size)) {
					res.violate("C01", "deliver/not-next", "gate scenario: message #%d read is not message #%d written", i, i)
				}
			}
		}
		res.res.Nontrivial = true
		res.res.Sig = fmt.Sprintf("gate|il=%v|u=%d|d=%d", spec.A.IL, spec.x("unordered", 0), spec.Link.DelayUs)
		res.res.Sample = map[string]any{"kind": spec.Kind, "probe_sent": true, "write_after_gate_wait": el.String()}
	})
}
