//go:build verif

package sctp

import (
	"fmt"
	"os"
	"strings"
)

// vfDumpTrace prints the decoded wire log (debugging aid; VF_TRACE=1).
var vfTraceN int //nolint:gochecknoglobals

func (s *vfSim) vfDumpTrace() {
	dir := os.Getenv("VF_TRACE")
	if dir == "" {
		return
	}
	vfTraceN++
	f, err := os.Create(fmt.Sprintf("%s/%s-%d.txt", dir, s.spec.ID, vfTraceN))
	if err != nil {
		return
	}
	defer f.Close() //nolint:errcheck
	defer func() {
		s.res.mu.Lock()
		for _, v := range s.res.res.Violations {
			fmt.Fprintf(f, "VIOLATION %s %s: %s\n", v.Prop, v.Key, v.Msg)
		}
		for _, w := range s.res.res.Witness {
			fmt.Fprintf(f, "WITNESS %s\n", w)
		}
		s.res.mu.Unlock()
	}()
	kinds := []string{"W", "D", "X", "I"}
	s.mu.Lock()
	hooks := append([]*vfHookEv(nil), s.hookLog...)
	s.mu.Unlock()
	hi := 0
	for _, e := range s.net.events() {
		for hi < len(hooks) && hooks[hi].Seq < e.Seq {
			h := hooks[hi]
			hi++
			if h.Ev == vfEvRTTSample || h.Ev == vfEvRTTSampleHB || h.Ev == vfEvT3After || h.Ev == vfEvFRAfter {
				fmt.Fprintf(f, "%6d %12v H%d ev=%d tsn=%d nSent=%d age=%v cwnd=%d srtt=%.0f rto=%.0f\n", h.Seq, h.T, h.Side, h.Ev, h.TSN, h.NSent, h.Age, h.Snap.CWND, h.Snap.SRTT, h.Snap.RTO)
			}
		}
		if e.Pkt == nil {
			e.Pkt = vfDecode(e.Raw)
		}
		var sb strings.Builder
		for i := range e.Pkt.Chunks {
			c := &e.Pkt.Chunks[i]
			switch {
			case c.isData():
				fmt.Fprintf(&sb, " %s(tsn=%d sid=%d ssn=%d mid=%d fsn=%d %s len=%d)", c.kind(), c.TSN, c.SID, c.SSN, c.MID, c.FSN, vfFlags(c), len(c.Data))
			case c.Type == vfCtSack:
				fmt.Fprintf(&sb, " SACK(cum=%d arwnd=%d gaps=%v dups=%v)", c.CumTSN, c.ARwnd, c.Gaps, c.Dups)
			case c.Type == vfCtForwardTSN || c.Type == vfCtIForwardTSN:
				fmt.Fprintf(&sb, " %s(new=%d %v)", c.kind(), c.NewCum, c.Fwd)
			case c.Type == vfCtReconfig:
				fmt.Fprintf(&sb, " RECONFIG(")
				for _, pr := range c.Params {
					if rq, ok := vfParseResetReq(pr); ok {
						fmt.Fprintf(&sb, "req rsn=%d last=%d sids=%v;", rq.ReqSeq, rq.LastTSN, rq.SIDs)
					} else if seq, r, ok := vfParseResetResp(pr); ok {
						fmt.Fprintf(&sb, "resp rsn=%d result=%d;", seq, r)
					}
				}
				fmt.Fprintf(&sb, ")")
			default:
				fmt.Fprintf(&sb, " %s", c.kind())
			}
		}
		sn := ""
		if e.Snap != nil {
			sn = fmt.Sprintf(" [st=%d cwnd=%d rwnd=%d infl=%d/%d pend=%d cum=%d peerLast=%d credit=%d srtt=%.0f rto=%.0f t3=%v]", e.Snap.State, e.Snap.CWND, e.Snap.RWND, e.Snap.InflightN, e.Snap.InflightB, e.Snap.PendingN, e.Snap.CumAck, e.Snap.PeerLastTSN, e.Snap.Credit, e.Snap.SRTT, e.Snap.RTO, e.Snap.T3Running)
		}
		fmt.Fprintf(f, "%6d %12v %s%d%s%s\n", e.Seq, e.T, kinds[e.Kind], e.Side, sb.String(), sn)
	}
}

func vfFlags(c *vfChunk) string {
	f := ""
	if c.U {
		f += "U"
	}
	if c.B {
		f += "B"
	}
	if c.E {
		f += "E"
	}

	return f
}
