//go:build verif

package sctp

// C10 — the sender honours cwnd, the peer's receive window and the MTU.
// Oracles live in mon.go (admission hook assertions, wire-shadow outstanding
// bytes, packet length, cwnd/ssthresh at T3 and fast-recovery hooks) and in
// inv.go; this file provides the window-shaping scenario list.

import (
	"fmt"
	"testing"
)

func vfGenWindowSpec(idx int, seed uint64) vfSpec {
	r := vfNewRand(vfHash(seed, uint64(idx), 0xC10))
	sp := vfGenTransferSpec("C10", idx, seed^0x1010, 1, 100)
	sp.ID = fmt.Sprintf("C10-win-%d", idx)
	kinds := []string{"rwnd-small", "slow-reader", "sack-loss", "gaps", "mtu", "pause", "mincwnd", "generic", "first-flight"}
	sp.Kind = kinds[idx%len(kinds)]
	mtus := []uint32{0, 96, 256, 576, 1191, 1500, 8192}
	sp.A.MTU = mtus[r.Intn(len(mtus))]
	sp.B.MTU = mtus[r.Intn(len(mtus))]
	il := sp.A.IL && sp.B.IL
	switch sp.Kind {
	case "rwnd-small":
		sp.B.RecvBuf = uint32(r.Pick(2048, 4096, 8192, 16384, 30000)) //nolint:gosec
		for i := range sp.Streams {
			sp.Streams[i].Reader = []string{"fast", "slow", "slow"}[r.Intn(3)]
		}
	case "slow-reader", "pause":
		sp.B.RecvBuf = uint32(r.Pick(8192, 16384, 65536)) //nolint:gosec
		mode := "slow"
		if sp.Kind == "pause" {
			mode = "pause"
		}
		sp.Streams = nil
		n := 1 + r.Intn(3)
		for i := 0; i < n; i++ {
			sp.Streams = append(sp.Streams, vfStreamCfg{SID: uint16(i + 1), Dir: 0, NMsgs: 40 + r.Intn(80), SizeMode: []string{"small", "mixed", "boundary"}[r.Intn(3)], Reader: mode}) //nolint:gosec
		}
	case "sack-loss":
		sp.Link = vfLinkCfg{DelayUs: int64(r.Pick(5000, 20000)), SackLossPm: r.Pick(300, 600, 900)}
	case "gaps":
		sp.Link = vfLinkCfg{DelayUs: int64(r.Pick(5000, 20000)), DataLossPm: r.Pick(50, 150, 300), JitterUs: int64(r.Pick(0, 20000, 60000))}
	case "first-flight":
		// before the first SACK the only window known is the one of the handshake: the side that answered the
		// INIT sends first, its congestion window larger than the peer's (small) buffer
		sp.A.RecvBuf = uint32(r.Pick(4096, 16384, 50000)) //nolint:gosec
		sp.B.MinCwnd = uint32(r.Pick(60000, 300000))      //nolint:gosec
		sp.Link = vfLinkCfg{DelayUs: int64(r.Pick(20000, 100000))}
		sp.Streams = nil
		for i := 0; i < 1+r.Intn(2); i++ {
			sp.Streams = append(sp.Streams, vfStreamCfg{SID: uint16(i + 1), Dir: 1, NMsgs: 60 + r.Intn(60), SizeMode: "small", Reader: []string{"fast", "slow"}[r.Intn(2)]}) //nolint:gosec
		}
	case "mincwnd":
		sp.A.MinCwnd = uint32(r.Pick(2000, 8000, 30000)) //nolint:gosec
		sp.B.MinCwnd = uint32(r.Pick(0, 8000))           //nolint:gosec
		sp.Link = vfLinkCfg{DelayUs: 10000, LossPm: r.Pick(50, 200), BurstPm: 20, BurstLen: 8}
	}
	n := [2]int{}
	for _, s := range sp.Streams {
		n[s.Dir]++
	}
	sp.A.MaxMsg = vfEffMaxMsg(&sp.A, &sp.B, n[0], il)
	sp.B.MaxMsg = vfEffMaxMsg(&sp.B, &sp.A, n[1], il)

	return sp
}

func init() { //nolint:gochecknoinits
	vfRegister(&vfProperty{
		id: "C10",
		list: func(tier string, seed uint64, race bool) []vfSpec {
			n := vfTierN(tier, 240, 3000)
			if race {
				n = vfTierN(tier, 32, 200)
			}
			out := make([]vfSpec, 0, n)
			for i := 0; i < n; i++ {
				out = append(out, vfGenWindowSpec(i, seed))
			}

			return out
		},
		run: func(t *testing.T, spec *vfSpec, res *vfRes) {
			out := vfRunTransfer(t, spec, res, vfXferOpts{mon: vfMonDefault(spec), hsProp: "C04"})
			vfNoteWrap(spec, res, out.mon)
			limits := ""
			for _, m := range []string{"cwnd-limited", "rwnd-limited", "window-probe"} {
				if res.has(m) {
					limits += m + ","
				}
			}
			loss := ""
			for _, m := range []string{"T3", "fast-recovery"} {
				if res.has(m) {
					loss += m + ","
				}
			}
			res.res.Nontrivial = res.has("cwnd-limited") && res.has("rwnd-limited") && (res.has("T3") || res.has("fast-recovery"))
			res.res.Sig = fmt.Sprintf("%s|mtu%d|buf%d|%s|%s", spec.Kind, spec.A.MTU, spec.B.RecvBuf, limits, loss)
			res.res.Sample = map[string]any{
				"kind": spec.Kind, "mtu": spec.A.MTU, "peer_buffer": spec.B.RecvBuf, "min_cwnd": spec.A.MinCwnd, "link": spec.Link,
				"admissions": res.get("c10_admissions"), "probes": res.get("c10_probes"), "t3": res.get("c10_t3"), "fast_recovery": res.get("c10_fr"),
				"wire_checked": res.get("c10_wire_checked"), "limits": limits,
			}
		},
	})
}
