//go:build verif

package sctp

// Offline monitors over the recorded wire log and hook log of one sim run:
// wire shadow (M-WIRE-SHADOW) plus the always-on oracles of C05, C06, C10,
// C12, C13, C17 and C19. Attribution is by property id; every check of every
// property runs them, a check only fails on violations of its own property
// (others are reported as "foreign" and surface when that property is run).

import (
	"bytes"
	"fmt"
	"sort"
	"time"
)

type vfTxInfo struct {
	TSN            uint32
	SID            uint16
	SSN            uint16
	MID, FSN, PPI  uint32
	U, B, E, IData bool
	Len            int
	FirstSeq       int64
	FirstT         time.Duration
	Times          []time.Duration
	NTx            int
}

type vfSideShadow struct {
	side int
	// as sender
	tx          map[uint32]*vfTxInfo
	initTSN     uint32
	haveInit    bool
	advertZC    bool // this side advertised zero-checksum acceptance (EDMID 1) in INIT/INIT-ACK it wrote
	advertIL    bool
	// as receiver
	got         map[uint32]bool // TSNs of DATA chunks delivered to this side
	rcum        uint32          // wire-shadow cumulative receive point (valid once havePeer)
	rmax        uint32
	haveRcum    bool
	fwdHigh     uint32
	haveFwd     bool
	peerInit    uint32 // peer's initial TSN as delivered to us
	havePeer    bool
	lastSackCum uint32
	haveSack    bool
	zcLearned   bool // peer's zero-checksum advert has been delivered to this side
	outstanding int  // wire view of unacked bytes sent by this side
	acked       map[uint32]bool
	cumAcked    uint32
	haveCum     bool
	lastARwnd   [2]uint32
	t3Pending   *vfHookEv // last T3-rtx expiry with data outstanding
	t3Tx, t3Fwd bool      // since then: the earliest outstanding TSN was written / a FORWARD-TSN was written
	nARwnd      int
	maxSackCumSeen uint32
	ownAcked    map[uint32]bool // TSNs this side reported in gap blocks of SACKs it wrote
	ownCum      uint32          // highest cumulative TSN this side wrote in a SACK
	haveOwnCum  bool
	admitCwnd   map[uint32]uint32
	admitLim    map[uint32]uint32 // peer's advertised window in effect at admission (max of the last two delivered SACKs)
	admitProbe  map[uint32]bool
	abortSeen   bool
}

type vfMonCfg struct {
	checkAckDelay   bool
	ackSlack        time.Duration
	checkImmediate  bool
	checkCompleteness bool
	skipStability   bool
	looseAck        bool
}

func vfNewShadow(side int) *vfSideShadow {
	return &vfSideShadow{
		side: side, tx: map[uint32]*vfTxInfo{}, got: map[uint32]bool{}, acked: map[uint32]bool{},
		admitCwnd: map[uint32]uint32{}, admitProbe: map[uint32]bool{}, admitLim: map[uint32]uint32{},
	}
}

type vfMonOut struct {
	sh       [2]*vfSideShadow
	nPackets int
	nSacks   int
	nData    int
	nAdmit   int
}

// runMonitors decodes the whole wire log and applies the wire oracles.
//
//nolint:gocognit,cyclop,gocyclo,maintidx
func (s *vfSim) runMonitors(mc vfMonCfg) *vfMonOut {
	res := s.res
	evs := s.net.events()
	s.mu.Lock()
	hooks := append([]*vfHookEv(nil), s.hookLog...)
	s.mu.Unlock()
	out := &vfMonOut{}
	out.sh[0], out.sh[1] = vfNewShadow(0), vfNewShadow(1)
	cfgs := [2]*vfSideCfg{&s.spec.A, &s.spec.B}
	wantIL := s.spec.A.IL && s.spec.B.IL
	if s.spec.Roles == "snap" {
		// no INIT / INIT-ACK on the wire: what they would carry was exchanged out of band
		for side := 0; side < 2; side++ {
			sh := out.sh[side]
			sh.initTSN, sh.haveInit = cfgs[side].InitTSN, true
			sh.peerInit, sh.havePeer = cfgs[1-side].InitTSN, true
			sh.zcLearned = cfgs[1-side].ZC
		}
	}

	// merge by seq
	type item struct {
		seq int64
		w   *vfWireEv
		h   *vfHookEv
	}
	items := make([]item, 0, len(evs)+len(hooks))
	for _, e := range evs {
		items = append(items, item{seq: e.Seq, w: e})
	}
	for _, h := range hooks {
		items = append(items, item{seq: h.Seq, h: h})
	}
	sort.Slice(items, func(i, j int) bool { return items[i].seq < items[j].seq })

	mtu := func(side int) int {
		if cfgs[side].MTU != 0 {
			return int(cfgs[side].MTU)
		}

		return int(initialMTU)
	}

	// pending ack obligations: for receiver E, list of (deadline, deliverSeq, immediate)
	type obl struct {
		due       time.Duration
		seq       int64
		immediate bool
		strict    bool // the covering SACK must report tsn
		t         time.Duration
		tsn       uint32
		why       string
	}
	var obls [2][]obl
	var ces [2][]vfChunksEndEv
	var ceIdx [2]int
	s.mu.Lock()
	for _, ce := range s.chunksEnd {
		ces[ce.Side] = append(ces[ce.Side], ce)
	}
	s.mu.Unlock()
	var closedAt [2]time.Duration
	closedAt[0], closedAt[1] = -1, -1

	for _, it := range items {
		if it.h != nil {
			h := it.h
			sh := out.sh[h.Side]
			switch h.Ev {
			case vfEvAdmit:
				out.nAdmit++
				res.count("c10_admissions", 1)
				sn := h.Snap
				if uint32(sn.InflightB)+uint32(h.Len) > sn.CWND { //nolint:gosec
					res.violate("C10", "admit/cwnd", "side %d: admitted TSN-to-be %d: in-flight %d + len %d > cwnd %d", h.Side, sn.NextTSN, sn.InflightB, h.Len, sn.CWND)
				}
				if uint32(h.Len) > sn.RWND { //nolint:gosec
					res.violate("C10", "admit/rwnd", "side %d: admitted %d bytes with rwnd %d", h.Side, h.Len, sn.RWND)
				}
				sh.admitCwnd[sn.NextTSN] = sn.CWND
				if sh.nARwnd > 0 {
					lim := sh.lastARwnd[0]
					if sh.nARwnd > 1 && sh.lastARwnd[1] > lim {
						lim = sh.lastARwnd[1]
					}
					sh.admitLim[sn.NextTSN] = lim
				}
				if uint32(sn.InflightB)+uint32(h.Len)+uint32(mtu(h.Side)) > sn.CWND { //nolint:gosec
					res.seen("cwnd-limited")
				}
				if uint32(h.Len)+uint32(mtu(h.Side)) > sn.RWND { //nolint:gosec
					res.seen("rwnd-limited")
				}
			case vfEvAdmitProbe:
				out.nAdmit++
				res.count("c10_probes", 1)
				res.seen("window-probe")
				sn := h.Snap
				if sn.InflightN != 0 {
					res.violate("C10", "probe/inflight", "side %d: window probe admitted with %d chunks in flight", h.Side, sn.InflightN)
				}
				sh.admitCwnd[sn.NextTSN] = sn.CWND
				sh.admitProbe[sn.NextTSN] = true
			case vfEvT3Before:
				// C19: between two expiries of T3-rtx with the same earliest outstanding chunk, that chunk was
				// retransmitted (whatever cwnd and the peer's window say, one chunk may always be in flight)
				if p := sh.t3Pending; p != nil && h.Snap.InflightN > 0 && p.Snap.CumAck == h.Snap.CumAck && h.Snap.AdvPeer == h.Snap.CumAck && p.Snap.AdvPeer == p.Snap.CumAck {
					res.count("c19_t3_pairs_checked", 1)
					if !sh.t3Tx && !sh.t3Fwd {
						res.violate("C19", "t3/no-retransmission-between-expiries", "side %d: T3-rtx expired at %v and again at %v with TSN %d the earliest outstanding chunk both times (cwnd %d, rwnd %d, %d chunks in flight), and that chunk was not written to the wire in between: data is no longer retransmitted", h.Side, p.T, h.T, h.Snap.CumAck+1, h.Snap.CWND, h.Snap.RWND, h.Snap.InflightN)
					}
				}
				sh.t3Pending, sh.t3Tx, sh.t3Fwd = nil, false, false
				if h.Snap.InflightN > 0 {
					sh.t3Pending = h
				}
			case vfEvFRBefore:
				// paired with the following After event of the same side
			case vfEvT3After:
				res.seen("T3")
				res.count("c10_t3", 1)
				// C19: a SACK that acknowledges the earliest outstanding chunk restarts T3-rtx with the current RTO,
				// which is never below RTO.Min (or RTO.Max if that is configured lower): no expiry sooner after it
				list := ces[h.Side]
				for i := sort.Search(len(list), func(k int) bool { return list[k].Seq > h.Seq }) - 1; i >= 1; i-- {
					if list[i].Cum == list[i-1].Cum {
						continue
					}
					low := time.Second
					if m := cfgs[h.Side].RTOMaxMs; m > 0 && time.Duration(m*float64(time.Millisecond)) < low {
						low = time.Duration(m * float64(time.Millisecond))
					}
					res.count("c19_t3_after_ack_checked", 1)
					// slack: the restart happens while the packet is processed, its end is what is recorded (yields in
					// between take up to a few ms of virtual time each); d = 0: the timer had already fired and its
					// callback was waiting for the association lock while the SACK was processed
					if d := h.T - list[i].T; d > 0 && d < low-100*time.Millisecond {
						res.violate("C19", "t3/expired-soon-after-ack", "side %d: T3-rtx expired at %v, only %v after a SACK that advanced the cumulative ack point to %d was processed (%v): the timer was not restarted for the new earliest outstanding chunk (an RTO is never below %v)", h.Side, h.T, d, list[i].Cum, list[i].T, low)
					}

					break
				}
				before := vfFindBefore(hooks, h, vfEvT3Before)
				m := uint32(mtu(h.Side)) //nolint:gosec
				wantCwnd := m
				if cfgs[h.Side].MinCwnd > wantCwnd {
					wantCwnd = cfgs[h.Side].MinCwnd
				}
				if h.Snap.CWND != wantCwnd {
					res.violate("C10", "t3/cwnd", "side %d: cwnd after T3 expiry is %d, want max(MTU,minCwnd)=%d", h.Side, h.Snap.CWND, wantCwnd)
				}
				if before != nil {
					wantSS := before.Snap.CWND / 2
					if wantSS < 4*m {
						wantSS = 4 * m
					}
					if h.Snap.SSThresh != wantSS {
						res.violate("C10", "t3/ssthresh", "side %d: ssthresh after T3 expiry is %d, want max(cwnd/2,4*MTU)=%d (cwnd before %d)", h.Side, h.Snap.SSThresh, wantSS, before.Snap.CWND)
					}
				}
			case vfEvFRAfter:
				res.seen("fast-recovery")
				res.count("c10_fr", 1)
				before := vfFindBefore(hooks, h, vfEvFRBefore)
				m := uint32(mtu(h.Side)) //nolint:gosec
				if before != nil {
					want := before.Snap.CWND / 2
					if want < 4*m {
						want = 4 * m
					}
					if want < cfgs[h.Side].MinCwnd {
						// setCWND clamps to minCwnd
						if h.Snap.CWND != cfgs[h.Side].MinCwnd {
							res.violate("C10", "fr/cwnd", "side %d: cwnd after fast-recovery entry %d, want minCwnd %d", h.Side, h.Snap.CWND, cfgs[h.Side].MinCwnd)
						}
					} else if h.Snap.CWND != want || h.Snap.SSThresh != want {
						res.violate("C10", "fr/cwnd", "side %d: cwnd/ssthresh after fast-recovery entry %d/%d, want %d (cwnd before %d)", h.Side, h.Snap.CWND, h.Snap.SSThresh, want, before.Snap.CWND)
					}
					if !h.Snap.InFR {
						res.violate("C10", "fr/flag", "side %d: not in fast recovery after entry", h.Side)
					}
				}
			case vfEvMiss3:
				// a loss detected by three miss indications cuts cwnd (enters fast recovery) unless the
				// sender already is in fast recovery: the very next hook event of this side is the entry
				res.count("c10_miss3", 1)
				if !h.Snap.InFR {
					var next *vfHookEv
					for _, x := range hooks {
						if x.Seq > h.Seq && x.Side == h.Side {
							next = x

							break
						}
					}
					if next == nil || next.Ev != vfEvFRBefore || next.TSN != h.TSN {
						res.violate("C10", "fr/not-entered", "side %d: TSN %d got its third miss indication while not in fast recovery (cwnd %d) but cwnd/ssthresh were not cut", h.Side, h.TSN, h.Snap.CWND)
					}
				}
			case vfEvRTTSample:
				res.count("c19_rtt_samples", 1)
				if h.NSent != 1 {
					res.violate("C19", "karn/nsent", "side %d: RTT sample taken from TSN %d which was transmitted %d times", h.Side, h.TSN, h.NSent)
				}
				if ti := sh.tx[h.TSN]; ti != nil && ti.NTx != 1 {
					res.violate("C19", "karn/wire", "side %d: RTT sample taken from TSN %d which the wire saw %d times", h.Side, h.TSN, ti.NTx)
				}
			case vfEvRTTSampleHB:
				res.count("c19_rtt_samples_hb", 1)
			}

			continue
		}

		e := it.w
		if e.Pkt == nil {
			e.Pkt = vfDecode(e.Raw)
		}
		p := e.Pkt
		switch e.Kind {
		case vfWrWrite:
			out.nPackets++
			res.count("wire_packets", 1)
			side := e.Side
			sh := out.sh[side]
			peer := out.sh[1-side]
			if s.puppet[side] {
				// packets written by the harness-driven peer are not judged
				continue
			}

			// ---- C12 (iii): well-formedness and stability of every emitted packet
			for _, m := range p.Malformed {
				res.violate("C12", "emit/malformed/"+vfKindOfFinding(p), "side %d wrote a malformed packet (%s): %s", side, vfPktSummary(p), m)
			}
			for _, m := range p.Semantic {
				res.violate("C12", "emit/invalid-field/"+vfKindOfFinding(p), "side %d wrote a packet (%s) with a field value no correct sender produces: %s", side, vfPktSummary(p), m)
			}
			if !mc.skipStability && len(p.Malformed) == 0 {
				vfCheckStability(res, e.Raw, p, side)
			}
			res.count("c12_emitted_checked", 1)

			// ---- C13 send side
			mandatory := p.has(vfCtInit) || p.has(vfCtCookieEcho)
			if p.CsumZero {
				res.count("c13_zero_emitted", 1)
				if mandatory {
					res.violate("C13", "emit/zero-mandatory", "side %d wrote %s with zero checksum", side, vfPktSummary(p))
				}
				if !sh.zcLearned {
					res.violate("C13", "emit/zero-unnegotiated", "side %d wrote %s with zero checksum but its peer had not advertised zero-checksum acceptance (DTLS method)", side, vfPktSummary(p))
				}
			} else {
				res.count("c13_crc_emitted", 1)
				if !p.CsumOK {
					res.violate("C13", "emit/bad-crc", "side %d wrote %s with wrong CRC32c %08x", side, vfPktSummary(p), p.Csum)
				}
			}

			hasData := false
			for ci := range p.Chunks {
				c := &p.Chunks[ci]
				switch c.Type {
				case vfCtInit, vfCtInitAck:
					sh.initTSN, sh.haveInit = c.InitTSN, true
					// the window the peer may use before the first SACK is the one advertised here
					if o := out.sh[1-side]; o.nARwnd == 0 {
						o.lastARwnd[0] = c.ARwnd
						o.nARwnd = 1
					}
					ext := vfInitExtensions(c)
					sh.advertZC = ext.ZeroCsum
					sh.advertIL = ext.IData
					if ext.ZeroCsum != cfgs[side].ZC {
						res.violate("C04", "init/zc-advert", "side %d: %s advertises zero-checksum=%v but option is %v", side, c.kind(), ext.ZeroCsum, cfgs[side].ZC)
					}
					if ext.IData != cfgs[side].IL || ext.IFwdTSN != cfgs[side].IL {
						res.violate("C04", "init/il-advert", "side %d: %s advertises I-DATA=%v I-FORWARD-TSN=%v but interleaving option is %v", side, c.kind(), ext.IData, ext.IFwdTSN, cfgs[side].IL)
					}
				case vfCtData, vfCtIData:
					hasData = true
					out.nData++
					// ---- C17 (i)
					if (c.Type == vfCtIData) != wantIL {
						res.violate("C17", "emit/wrong-kind", "side %d wrote %s but interleaving negotiated=%v", side, c.kind(), wantIL)
					}
					if c.PPI == 50 && c.U && (c.Type == vfCtData || c.B) {
						res.violate("C06", "dcep/unordered", "side %d wrote a DCEP chunk (TSN %d) with the U flag", side, c.TSN)
					}
					if p := sh.t3Pending; p != nil && c.TSN == p.Snap.CumAck+1 {
						sh.t3Tx = true
					}
					ti := sh.tx[c.TSN]
					if ti == nil {
						ti = &vfTxInfo{
							TSN: c.TSN, SID: c.SID, SSN: c.SSN, MID: c.MID, FSN: c.FSN, PPI: c.PPI, U: c.U, B: c.B, E: c.E,
							IData: c.Type == vfCtIData, Len: len(c.Data), FirstSeq: e.Seq, FirstT: e.T,
						}
						sh.tx[c.TSN] = ti
						// wire-shadow outstanding bytes
						sh.outstanding += len(c.Data)
						if cw, ok := sh.admitCwnd[c.TSN]; ok {
							if !sh.admitProbe[c.TSN] && uint32(sh.outstanding) > cw { //nolint:gosec
								res.violate("C10", "wire/outstanding-cwnd", "side %d: after first transmission of TSN %d the wire shows %d unacknowledged bytes > cwnd %d at admission", side, c.TSN, sh.outstanding, cw)
							}
							res.count("c10_wire_checked", 1)
						} else {
							res.violate("C10", "wire/no-admission", "side %d: TSN %d appeared on the wire without an admission decision", side, c.TSN)
						}
						// the window that counts is the one in effect when the chunk was admitted: between the
						// admission (under the lock) and the write to the transport further SACKs may be delivered
						if lim, ok := sh.admitLim[c.TSN]; ok && !sh.admitProbe[c.TSN] {
							if uint32(sh.outstanding) > lim { //nolint:gosec
								res.violate("C10", "wire/outstanding-arwnd", "side %d: after first transmission of TSN %d the wire shows %d unacknowledged bytes > peer's advertised window %d", side, c.TSN, sh.outstanding, lim)
							}
						}
					} else {
						res.seen("retransmission")
						if ti.Len != len(c.Data) || ti.SID != c.SID || ti.PPI != c.PPI || ti.B != c.B || ti.E != c.E || ti.U != c.U || ti.MID != c.MID || ti.FSN != c.FSN || ti.SSN != c.SSN {
							res.violate("C01", "wire/retransmit-differs", "side %d: retransmission of TSN %d differs from its first transmission", side, c.TSN)
						}
					}
					ti.NTx++
					ti.Times = append(ti.Times, e.T)
					if !c.B || !c.E {
						res.seen("fragmented")
					}
				case vfCtSack:
					out.nSacks++
					res.count("c05_sacks_checked", 1)
					vfCheckSackSound(res, sh, c, side)
					// ack obligations discharged
					var keep []obl
					for _, o := range obls[side] {
						covers := !o.strict || sna32GTE(c.CumTSN, o.tsn)
						if !covers {
							for _, g := range c.Gaps {
								if d := o.tsn - c.CumTSN; d >= uint32(g[0]) && d <= uint32(g[1]) {
									covers = true
								}
							}
						}
						if e.Seq > o.seq && covers {
							if e.T > o.due {
								key := "ack/late"
								if o.immediate {
									key = "ack/not-immediate/" + o.why
								}
								res.violate("C19", key, "side %d: DATA (tsn %d) delivered at %v was first covered by a SACK written at %v (allowed until %v)", side, o.tsn, o.t, e.T, o.due)
							}

							continue
						}
						keep = append(keep, o)
					}
					obls[side] = keep
				case vfCtForwardTSN, vfCtIForwardTSN:
					res.seen("forward-tsn")
					res.count("c07_fwdtsn_written", 1)
					sh.t3Fwd = true
					if (c.Type == vfCtIForwardTSN) != wantIL {
						res.violate("C17", "emit/wrong-fwd-kind", "side %d wrote %s but interleaving negotiated=%v", side, c.kind(), wantIL)
					}
					vfCheckForwardTSN(res, sh, c, e, side)
				case vfCtAbort:
					sh.abortSeen = true
				}
			}
			// ---- C10 (iii) MTU
			if hasData && len(e.Raw) > mtu(side) {
				res.violate("C10", "wire/mtu", "side %d wrote a %d-byte packet carrying user data, MTU is %d", side, len(e.Raw), mtu(side))
			}
			_ = peer

		case vfWrDeliver, vfWrInject:
			side := e.Side
			sh := out.sh[side]
			if p.Fatal {
				continue
			}
			// checksum-acceptable packets only (the endpoint drops the others)
			if !p.CsumOK && !(p.CsumZero && cfgs[side].ZC) {
				continue
			}
			nData := 0
			var firstTSN uint32
			gapOrDup := false
			immWhy := ""
			for ci := range p.Chunks {
				c := &p.Chunks[ci]
				switch c.Type {
				case vfCtInit, vfCtInitAck:
					if e.Kind == vfWrDeliver {
						sh.peerInit, sh.havePeer = c.InitTSN, true
						ext := vfInitExtensions(c)
						if ext.ZeroCsum {
							sh.zcLearned = true
						}
					}
				case vfCtData, vfCtIData:
					if nData == 0 {
						firstTSN = c.TSN
					}
					nData++
					if sh.got[c.TSN] {
						res.seen("dup-delivered")
						// An earlier copy may have been dropped by the receiver (zero window, accept backlog): it is
						// a duplicate for the receiver only if the receiver itself has acknowledged that TSN before.
						if (sh.haveOwnCum && sna32LTE(c.TSN, sh.ownCum)) || sh.ownAcked[c.TSN] {
							gapOrDup = true
							immWhy = "duplicate"
							res.seen("dup-of-acked-delivered")
						}
					}
					sh.got[c.TSN] = true
					if sh.havePeer {
						if !sh.haveRcum {
							sh.rcum, sh.rmax, sh.haveRcum = sh.peerInit-1, sh.peerInit-1, true
						}
						if sna32GT(c.TSN, sh.rmax) {
							sh.rmax = c.TSN
						}
						for sh.got[sh.rcum+1] {
							sh.rcum++
						}
						if sna32GT(sh.rmax, sh.rcum) {
							gapOrDup = true
							if immWhy == "" {
								immWhy = "gap"
							}
							res.seen("gap-delivered")
						}
					}
				case vfCtForwardTSN, vfCtIForwardTSN:
					if !sh.haveFwd || sna32GT(c.NewCum, sh.fwdHigh) {
						sh.fwdHigh, sh.haveFwd = c.NewCum, true
					}
					if sh.haveRcum && sna32GT(c.NewCum, sh.rcum) {
						sh.rcum = c.NewCum
						if sna32GT(sh.rcum, sh.rmax) {
							sh.rmax = sh.rcum
						}
						for sh.got[sh.rcum+1] {
							sh.rcum++
						}
					}
					res.count("c07_fwdtsn_delivered", 1)
				case vfCtSack:
					// peer's SACK delivered to us: update our wire-view of outstanding bytes
					vfApplySackToSender(sh, c)
				case vfCtShutdown:
					vfApplyCumToSender(sh, c.CumTSN)
				case vfCtAbort:
					if closedAt[side] < 0 {
						closedAt[side] = e.T
					}
				}
			}
			if nData > 0 && mc.checkAckDelay && e.Snap != nil && isDataReceiveState(e.Snap.State) && e.Kind == vfWrDeliver {
				due := e.T + 200*time.Millisecond + mc.ackSlack
				imm := false
				if mc.checkImmediate && gapOrDup {
					// a gap counts only if the receiver itself still sees one once the packet is processed (the
					// shadow also contains chunks the receiver dropped): its receive queue at the ChunksEnd hook
					if immWhy == "gap" {
						gapOrDup = false
						for ceIdx[side] < len(ces[side]) && ces[side][ceIdx[side]].Seq < e.Seq {
							ceIdx[side]++
						}
						if ceIdx[side] < len(ces[side]) && ces[side][ceIdx[side]].RecvQ > 0 {
							gapOrDup = true
						}
					}
				}
				if mc.checkImmediate && gapOrDup {
					imm = true
					due = e.T + mc.ackSlack
				}
				strict := e.Snap.Credit > 0 && firstTSN-e.Snap.PeerLastTSN < minTSNOffset && !mc.looseAck
				res.count("c19_ack_obligations", 1)
				if imm {
					res.count("c19_immediate_obligations", 1)
				}
				obls[side] = append(obls[side], obl{due: due, seq: e.Seq, immediate: imm, strict: strict, t: e.T, tsn: firstTSN, why: immWhy})
			}
		}
	}

	// unanswered ack obligations: only meaningful if the endpoint stayed up long enough
	endT := s.net.now()
	for side := 0; side < 2; side++ {
		for _, o := range obls[side] {
			if o.due+time.Millisecond < endT && (closedAt[side] < 0 || closedAt[side] > o.due) && !s.sideClosedBefore(side, o.due) {
				key := "ack/missing"
				if o.immediate {
					key = "ack/not-immediate/" + o.why
				}
				res.violate("C19", key, "side %d: DATA (tsn %d) delivered at %v was never covered by a SACK (due %v, run ended %v)", side, o.tsn, o.t, o.due, endT)

				break
			}
		}
	}

	// ---- C17 (iii)/(iv): fragment layout in order of TSN
	for side := 0; side < 2; side++ {
		vfCheckFragmentLayout(res, out.sh[side], side, wantIL)
	}
	res.count("mon_hook_events", int64(len(hooks)))

	return out
}

func (s *vfSim) sideClosedBefore(side int, t time.Duration) bool {
	s.apiMu.Lock()
	defer s.apiMu.Unlock()
	for _, ev := range s.api {
		if ev.Side == side && (ev.Op == "aclose" || ev.Op == "abort" || ev.Op == "shutdown") && ev.CallT <= t {
			return true
		}
	}

	return false
}

func vfFindBefore(hooks []*vfHookEv, h *vfHookEv, ev int) *vfHookEv {
	var best *vfHookEv
	for _, x := range hooks {
		if x.Seq >= h.Seq {
			break
		}
		if x.Side == h.Side && x.Ev == ev {
			best = x
		}
	}

	return best
}

func vfKindOfFinding(p *vfPkt) string {
	if c := p.first(); c != nil {
		return c.kind()
	}

	return "none"
}

func vfPktSummary(p *vfPkt) string {
	var b bytes.Buffer
	for i := range p.Chunks {
		if i > 0 {
			b.WriteByte('+')
		}
		b.WriteString(p.Chunks[i].kind())
	}
	if b.Len() == 0 {
		return "(no chunks)"
	}

	return b.String()
}

// vfCheckStability: the repository decoder must accept every packet an
// association emitted, and re-encoding what it decoded must give the same bytes.
func vfCheckStability(res *vfRes, raw []byte, p *vfPkt, side int) {
	pk := &packet{}
	if err := pk.unmarshal(!p.CsumZero, raw); err != nil {
		res.violate("C12", "emit/undecodable/"+vfKindOfFinding(p), "side %d wrote %s which packet.unmarshal rejects: %v", side, vfPktSummary(p), err)

		return
	}
	if len(pk.chunks) != len(p.Chunks) {
		res.violate("C12", "emit/chunk-count/"+vfKindOfFinding(p), "side %d wrote %s: packet.unmarshal sees %d chunks, independent decoder %d", side, vfPktSummary(p), len(pk.chunks), len(p.Chunks))

		return
	}
	re, err := pk.marshal(!p.CsumZero)
	if err != nil {
		res.violate("C12", "emit/remarshal-error/"+vfKindOfFinding(p), "side %d wrote %s: re-marshal failed: %v", side, vfPktSummary(p), err)

		return
	}
	if !bytes.Equal(re, raw) {
		res.violate("C12", "emit/unstable/"+vfKindOfFinding(p), "side %d wrote %s: decode+re-encode gives different bytes (%d vs %d)", side, vfPktSummary(p), len(re), len(raw))
	}
}

// vfCheckSackSound: C05 soundness of a SACK written by side (shadow sh holds
// what was delivered to that side so far).
func vfCheckSackSound(res *vfRes, sh *vfSideShadow, c *vfChunk, side int) {
	if !sh.havePeer {
		return
	}
	// what this side itself reported as received (used to recognise true duplicates later)
	if sh.ownAcked == nil {
		sh.ownAcked = map[uint32]bool{}
	}
	if !sh.haveOwnCum || sna32GT(c.CumTSN, sh.ownCum) {
		sh.ownCum, sh.haveOwnCum = c.CumTSN, true
	}
	for _, g := range c.Gaps {
		for o := uint32(g[0]); o <= uint32(g[1]) && o-uint32(g[0]) < 4096; o++ {
			sh.ownAcked[c.CumTSN+o] = true
		}
	}
	base := sh.peerInit - 1
	if sh.haveSack {
		if sna32LT(c.CumTSN, sh.lastSackCum) {
			res.violate("C05", "sack/cum-regress", "side %d: SACK cumulative TSN %d is behind the previous %d", side, c.CumTSN, sh.lastSackCum)
		}
		if sna32GT(sh.lastSackCum, base) {
			base = sh.lastSackCum
		}
	}
	n := c.CumTSN - base
	if n > 0 && n < 1<<20 {
		for t := base + 1; sna32LTE(t, c.CumTSN); t++ {
			if sh.got[t] {
				continue
			}
			if sh.haveFwd && sna32LTE(t, sh.fwdHigh) {
				continue
			}
			res.violate("C05", "sack/cum-unreceived", "side %d: SACK cumulative TSN %d covers TSN %d (peer initial %d) which was never delivered to it nor skipped by a FORWARD-TSN", side, c.CumTSN, t, sh.peerInit)

			break
		}
	} else if n >= 1<<20 && sna32GT(c.CumTSN, base) {
		res.violate("C05", "sack/cum-jump", "side %d: SACK cumulative TSN jumped by %d", side, n)
	}
	if len(c.Gaps) > 0 {
		res.seen("gap-blocks")
		if len(c.Gaps) > 1 {
			res.seen("multi-gap")
		}
	}
	for _, g := range c.Gaps {
		for o := uint32(g[0]); o <= uint32(g[1]); o++ {
			t := c.CumTSN + o
			if !sh.got[t] {
				res.violate("C05", "sack/gap-unreceived", "side %d: SACK (cum %d) gap block %d-%d names TSN %d which was never delivered to it", side, c.CumTSN, g[0], g[1], t)

				break
			}
		}
	}
	sh.lastSackCum, sh.haveSack = c.CumTSN, true
}

func vfApplyCumToSender(sh *vfSideShadow, cum uint32) {
	if !sh.haveInit {
		return
	}
	base := sh.initTSN - 1
	if sh.haveCum {
		base = sh.cumAcked
	}
	if !sna32GT(cum, base) {
		return
	}
	if cum-base > 1<<20 {
		return
	}
	for t := base + 1; sna32LTE(t, cum); t++ {
		if ti := sh.tx[t]; ti != nil && !sh.acked[t] {
			sh.acked[t] = true
			sh.outstanding -= ti.Len
		}
	}
	sh.cumAcked, sh.haveCum = cum, true
}

func vfApplySackToSender(sh *vfSideShadow, c *vfChunk) {
	if !sh.haveInit {
		return
	}
	if sh.haveCum && sna32LT(c.CumTSN, sh.cumAcked) {
		return // stale SACK is dropped by the sender
	}
	vfApplyCumToSender(sh, c.CumTSN)
	for _, g := range c.Gaps {
		if g[0] > g[1] {
			return
		}
		for o := uint32(g[0]); o <= uint32(g[1]); o++ {
			t := c.CumTSN + o
			if ti := sh.tx[t]; ti != nil && !sh.acked[t] {
				sh.acked[t] = true
				sh.outstanding -= ti.Len
			}
		}
	}
	sh.lastARwnd[1] = sh.lastARwnd[0]
	sh.lastARwnd[0] = c.ARwnd
	sh.nARwnd++
}

// vfCheckForwardTSN: the per-stream entries of a FORWARD-TSN must be exactly the
// highest skipped ordered SSN (resp. ordered and unordered MID) per stream among
// the TSNs it newly skips, judged from the wire shadow of first transmissions.
func vfCheckForwardTSN(res *vfRes, sh *vfSideShadow, c *vfChunk, e *vfWireEv, side int) {
	if e.Snap == nil || !sh.haveInit {
		return
	}
	cum := e.Snap.CumAck
	if !sna32GT(c.NewCum, cum) {
		// the snapshot is taken after gather; cum ack may have moved on meanwhile
		return
	}
	if c.NewCum-cum > 1<<16 {
		res.violate("C07", "fwd/jump", "side %d: FORWARD-TSN new cumulative TSN %d is %d beyond the cumulative ack point %d", side, c.NewCum, c.NewCum-cum, cum)

		return
	}
	type key struct {
		sid uint16
		u   bool
	}
	want := map[key]uint32{}
	for t := cum + 1; sna32LTE(t, c.NewCum); t++ {
		ti := sh.tx[t]
		if ti == nil {
			res.violate("C07", "fwd/unsent", "side %d: FORWARD-TSN %d skips TSN %d which was never sent", side, c.NewCum, t)

			return
		}
		if ti.PPI == 50 && ti.B {
			res.violate("C06", "dcep/skipped", "side %d: FORWARD-TSN %d skips TSN %d which carries a DCEP message", side, c.NewCum, t)
		}
		if c.Type == vfCtIForwardTSN {
			k := key{ti.SID, ti.U}
			if v, ok := want[k]; !ok || sna32LT(v, ti.MID) {
				want[k] = ti.MID
			}
		} else if !ti.U {
			k := key{ti.SID, false}
			if v, ok := want[k]; !ok || sna16LT(uint16(v), ti.SSN) { //nolint:gosec
				want[k] = uint32(ti.SSN)
			}
		}
	}
	got := map[key]uint32{}
	for _, f := range c.Fwd {
		k := key{f.SID, f.Unordered}
		if _, dup := got[k]; dup {
			res.violate("C07", "fwd/dup-entry", "side %d: %s lists stream %d twice", side, c.kind(), f.SID)
		}
		got[k] = f.Seq
	}
	// The snapshot's cumulative ack point can be older than the one used when the chunk was built
	// (never newer: it is taken at Write time, after the gather), so the chunk may legitimately list
	// fewer streams than `want` if want was computed over a longer range. The snapshot is taken at
	// Write, i.e. after the chunk was built, so cum >= cum at build time and want is a subset; entries
	// in `got` for streams not in `want` are tolerated only if they correspond to TSNs <= cum.
	// Overshoot: an entry may only name a message that is actually skipped, i.e. the SSN/MID of some
	// chunk of that (stream, ordering) with TSN <= new cumulative TSN. SSN/MID grow with TSN per stream,
	// so the serial maximum over everything sent up to NewCum bounds every legitimate entry.
	for k, g := range got {
		var maxSeq uint32
		found := false
		for t := sh.initTSN; sna32LTE(t, c.NewCum); t++ {
			ti := sh.tx[t]
			if ti == nil || ti.SID != k.sid {
				continue
			}
			if c.Type == vfCtIForwardTSN {
				if ti.U != k.u {
					continue
				}
				if !found || sna32LT(maxSeq, ti.MID) {
					maxSeq, found = ti.MID, true
				}
			} else {
				if ti.U {
					continue
				}
				if !found || sna16LT(uint16(maxSeq), ti.SSN) { //nolint:gosec
					maxSeq, found = uint32(ti.SSN), true
				}
			}
		}
		over := !found
		if found {
			if c.Type == vfCtIForwardTSN {
				over = sna32GT(g, maxSeq)
			} else {
				over = sna16GT(uint16(g), uint16(maxSeq)) //nolint:gosec
			}
		}
		if over {
			res.violate("C07", "fwd/overshoot", "side %d: %s (new cum %d) tells the peer to skip stream %d (unordered=%v) up to seq %d, but no ordered message with that sequence number was sent at or below that TSN (highest: %d, any: %v): a message that was not abandoned would be discarded", side, c.kind(), c.NewCum, k.sid, k.u, g, maxSeq, found)
		}
	}
	for k, w := range want {
		g, ok := got[k]
		if !ok {
			res.violate("C07", "fwd/missing-stream", "side %d: %s (new cum %d) skips a message on stream %d (unordered=%v, seq %d) but does not list the stream", side, c.kind(), c.NewCum, k.sid, k.u, w)

			continue
		}
		if c.Type == vfCtIForwardTSN {
			if sna32LT(g, w) {
				res.violate("C07", "fwd/low-seq", "side %d: %s lists stream %d MID %d but skips MID %d", side, c.kind(), k.sid, g, w)
			}
		} else if sna16LT(uint16(g), uint16(w)) { //nolint:gosec
			res.violate("C07", "fwd/low-seq", "side %d: %s lists stream %d SSN %d but skips SSN %d", side, c.kind(), k.sid, g, w)
		}
	}
}

// vfCheckFragmentLayout: C17 (iii) without interleaving the fragments of one
// message occupy consecutive TSNs; (iv) with interleaving FSNs of a message
// start at 0 and increase by one in TSN order.
//
//nolint:gocognit,cyclop
func vfCheckFragmentLayout(res *vfRes, sh *vfSideShadow, side int, il bool) {
	if len(sh.tx) == 0 {
		return
	}
	tsns := make([]uint32, 0, len(sh.tx))
	for t := range sh.tx {
		tsns = append(tsns, t)
	}
	base := sh.initTSN
	sort.Slice(tsns, func(i, j int) bool { return tsns[i]-base < tsns[j]-base })
	if !il {
		var cur *vfTxInfo
		for _, t := range tsns {
			ti := sh.tx[t]
			if ti.IData {
				continue
			}
			if cur != nil {
				if ti.TSN != cur.TSN+1 || ti.SID != cur.SID || ti.U != cur.U || ti.B || (!ti.U && ti.SSN != cur.SSN) {
					res.violate("C17", "layout/not-consecutive", "side %d: fragment TSN %d (sid %d ssn %d B=%v) follows unfinished message at TSN %d (sid %d ssn %d)", side, ti.TSN, ti.SID, ti.SSN, ti.B, cur.TSN, cur.SID, cur.SSN)
					cur = nil
				}
			} else if !ti.B {
				res.violate("C17", "layout/no-begin", "side %d: TSN %d (sid %d) is a middle/end fragment without a preceding beginning", side, ti.TSN, ti.SID)
			}
			if ti.E {
				cur = nil
			} else {
				cur = ti
			}
			res.count("c17_layout_chunks", 1)
		}

		return
	}
	type mk struct {
		sid uint16
		u   bool
		mid uint32
	}
	next := map[mk]uint32{}
	done := map[mk]bool{}
	for _, t := range tsns {
		ti := sh.tx[t]
		if !ti.IData {
			continue
		}
		k := mk{ti.SID, ti.U, ti.MID}
		want := next[k]
		fsn := ti.FSN
		if ti.B {
			fsn = 0
		}
		if done[k] {
			// MID reuse after wrap or after stream reset is legal; restart
			if ti.B {
				done[k] = false
				want = 0
			}
		}
		if ti.B != (want == 0) || fsn != want {
			res.violate("C17", "layout/fsn", "side %d: I-DATA TSN %d (sid %d mid %d) has B=%v FSN=%d, expected FSN %d", side, ti.TSN, ti.SID, ti.MID, ti.B, fsn, want)
		}
		next[k] = fsn + 1
		if ti.E {
			done[k] = true
			next[k] = 0
		}
		res.count("c17_layout_chunks", 1)
	}
}

func vfFmtDur(d time.Duration) string { return fmt.Sprintf("%.3fms", float64(d)/1e6) }
