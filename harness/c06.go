//go:build verif

package sctp

// C06 — unordered / partially reliable delivery: at most once, intact,
//       policy-bounded retransmission.
// C07 — abandoned messages never block or destroy anything else.

import (
	"fmt"
	"sort"
	"testing"
	"time"
)

// vfWireMsg is one user message as seen on the wire (first transmissions).
type vfWireMsg struct {
	SID      uint16
	U        bool
	Seq      uint32 // SSN or MID
	TSNs     []uint32
	Len      int
	PPI      uint32
	Complete bool // saw B..E
	FirstT   time.Duration
}

// vfWireMessages groups a sender's first transmissions into messages, per
// stream in TSN order.
func vfWireMessages(sh *vfSideShadow) map[uint16][]*vfWireMsg {
	tsns := make([]uint32, 0, len(sh.tx))
	for t := range sh.tx {
		tsns = append(tsns, t)
	}
	base := sh.initTSN
	sort.Slice(tsns, func(i, j int) bool { return tsns[i]-base < tsns[j]-base })
	out := map[uint16][]*vfWireMsg{}
	type key struct {
		sid uint16
		u   bool
		seq uint32
	}
	open := map[key]*vfWireMsg{}
	for _, t := range tsns {
		ti := sh.tx[t]
		k := key{ti.SID, ti.U, uint32(ti.SSN)}
		if ti.IData {
			k.seq = ti.MID
		} else if ti.U {
			k.seq = 0 // unordered DATA: fragments are consecutive TSNs, only one open message per stream
		}
		m := open[k]
		if ti.B || m == nil {
			m = &vfWireMsg{SID: ti.SID, U: ti.U, Seq: k.seq, PPI: ti.PPI, FirstT: ti.FirstT}
			open[k] = m
			out[ti.SID] = append(out[ti.SID], m)
		}
		m.TSNs = append(m.TSNs, t)
		m.Len += ti.Len
		if ti.E {
			m.Complete = true
			delete(open, k)
		}
	}

	return out
}

type vfFwdEv struct {
	T      time.Duration
	NewCum uint32
	CumAck uint32 // wire-shadow cumulative ack of the sender when the FORWARD-TSN was written
}

// vfCollectFwd lists FORWARD-TSNs written by side with the sender's ack state.
func (s *vfSim) vfCollectFwd(side int) []vfFwdEv {
	var out []vfFwdEv
	for _, e := range s.net.events() {
		if e.Kind != vfWrWrite || e.Side != side || e.Pkt == nil {
			continue
		}
		for i := range e.Pkt.Chunks {
			c := &e.Pkt.Chunks[i]
			if c.Type == vfCtForwardTSN || c.Type == vfCtIForwardTSN {
				fe := vfFwdEv{T: e.T, NewCum: c.NewCum}
				if e.Snap != nil {
					fe.CumAck = e.Snap.CumAck
				}
				out = append(out, fe)
			}
		}
	}

	return out
}

// vfCheckPRWire: C06 wire oracles (transmission counts / lifetime) and C07
// end-to-end oracle (undelivered => skipped by a FORWARD-TSN; not skipped =>
// delivered), using the mapping k-th accepted write <-> k-th wire message of
// the stream.
//
//nolint:gocognit,cyclop
func vfCheckPRWire(s *vfSim, w *vfWork, mo *vfMonOut, drained bool) {
	res := s.res
	for side := 0; side < 2; side++ {
		sh := mo.sh[side]
		msgs := vfWireMessages(sh)
		fwds := s.vfCollectFwd(side)
		for _, run := range w.allRuns() {
			if run.wside != side {
				continue
			}
			run.mu.Lock()
			writes := append([]vfWriteRec(nil), run.writes...)
			reads := append([]vfReadRec(nil), run.reads...)
			run.mu.Unlock()
			if run.inc != 0 {
				continue // incarnations share the sid on the wire; mapping by index is only valid for the first
			}
			// Without interleaving unordered messages may overtake ordered ones of the same stream in the
			// pending queue, so the k-th write maps to the k-th wire message of its own class (U flag).
			var wmO, wmU []*vfWireMsg
			for _, m := range msgs[run.cfg.SID] {
				if m.U {
					wmU = append(wmU, m)
				} else {
					wmO = append(wmO, m)
				}
			}
			var acc []vfWriteRec
			var accWM []*vfWireMsg
			nO, nU := 0, 0
			for _, wr := range writes {
				if !wr.Accepted || wr.Size == 0 {
					continue
				}
				acc = append(acc, wr)
				var m *vfWireMsg
				if wr.Unordered && !wr.DCEP {
					if nU < len(wmU) {
						m = wmU[nU]
					}
					nU++
				} else {
					if nO < len(wmO) {
						m = wmO[nO]
					}
					nO++
				}
				accWM = append(accWM, m)
			}
			deliveredHash := map[uint64]int{}
			for _, rd := range reads {
				deliveredHash[rd.Hash]++
			}
			for k, wr := range acc {
				m := accWM[k]
				if m == nil {
					if drained {
						res.violate("C07", "wire/never-sent", "dir %d sid %d: accepted write idx=%d never appeared on the wire although the sender reports nothing buffered", run.cfg.Dir, run.cfg.SID, wr.Idx)
					}

					break
				}
				if m.Complete && m.Len != wr.Size {
					res.violate("C01", "wire/message-length", "dir %d sid %d: write idx=%d of %d bytes went out as a %d-byte message", run.cfg.Dir, run.cfg.SID, wr.Idx, wr.Size, m.Len)
				}
				// ---- C06 transmission bounds
				if !wr.DCEP {
					switch wr.RelType {
					case ReliabilityTypeRexmit:
						for _, t := range m.TSNs {
							ti := sh.tx[t]
							res.count("c06_rexmit_tsns_checked", 1)
							if ti.NTx > int(wr.RelVal)+1 {
								key := "rexmit/exceeded/" + vfExceedClass(sh, m, ti.Times[int(wr.RelVal)+1])
								res.violate("C06", key, "dir %d sid %d: TSN %d of message idx=%d (%d fragments, all first sent by %v: %v) was put on the wire %d times under a retransmission limit of %d (times %v)", run.cfg.Dir, run.cfg.SID, t, wr.Idx, len(m.TSNs), vfLastFirstT(sh, m), m.Complete, ti.NTx, wr.RelVal, ti.Times)
							}
						}
					case ReliabilityTypeTimed:
						deadline := m.FirstT + time.Duration(wr.RelVal)*time.Millisecond
						if s.spec.Yield > 0 {
							// with armed yields a packet reaches the wire up to a few ms after the decision to send it
							// was taken (sleep between gatherOutbound and the transport write): a transmission that
							// close behind the deadline may have been decided before it
							deadline += 12 * time.Millisecond
						}
						for _, t := range m.TSNs {
							ti := sh.tx[t]
							res.count("c06_timed_tsns_checked", 1)
							late := 0
							var second time.Duration
							for _, tt := range ti.Times {
								if tt > deadline {
									late++
									if late == 2 {
										second = tt
									}
								}
							}
							if late > 0 {
								res.seen("lifetime-expired")
							}
							if late > 1 {
								res.violate("C06", "timed/exceeded/"+vfExceedClass(sh, m, second), "dir %d sid %d: TSN %d of message idx=%d was transmitted %d times after its lifetime of %d ms had expired (first sent %v, transmissions %v)", run.cfg.Dir, run.cfg.SID, t, wr.Idx, late, wr.RelVal, m.FirstT, ti.Times)
							}
						}
					}
				}
				// ---- C07 end-to-end
				skipped := false
				// a FORWARD-TSN that newly covers any TSN of the message (not yet cumulatively acknowledged
				// when it was written) gives the whole message up
				for _, f := range fwds {
					for _, t := range m.TSNs {
						if sna32GT(t, f.CumAck) && sna32LTE(t, f.NewCum) {
							skipped = true
						}
					}
				}
				deliv := deliveredHash[wr.Hash] > 0
				if skipped {
					res.seen("abandoned")
					res.count("c07_abandoned_msgs", 1)
					if wr.DCEP || wr.RelType == ReliabilityTypeReliable {
						res.violate("C07", "skip/reliable-message", "dir %d sid %d: reliable message idx=%d (ppi %d) was skipped by a FORWARD-TSN", run.cfg.Dir, run.cfg.SID, wr.Idx, wr.PPI)
					}
				} else if drained && !deliv {
					res.violate("C07", "lost-without-skip", "dir %d sid %d: message idx=%d (%d bytes, unordered=%v rel=%d/%d, TSNs %v) was neither delivered nor skipped by any FORWARD-TSN, yet the sender reports nothing buffered", run.cfg.Dir, run.cfg.SID, wr.Idx, wr.Size, wr.Unordered, wr.RelType, wr.RelVal, vfHeadTSNs(m.TSNs))
				}
				if deliv {
					res.count("c07_delivered_msgs", 1)
					if skipped {
						res.seen("skipped-but-delivered")
					}
				}
			}
		}
	}
}

// vfLastFirstT: the instant by which every fragment of the message had been transmitted once.
func vfLastFirstT(sh *vfSideShadow, m *vfWireMsg) time.Duration {
	var last time.Duration
	for _, t := range m.TSNs {
		if ti := sh.tx[t]; ti != nil && ti.FirstT > last {
			last = ti.FirstT
		}
	}

	return last
}

// vfExceedClass tells whether an excess transmission at instant `at` happened while fragments of the
// message were still waiting for their first transmission (the implementation only treats a message as
// abandoned once all its fragments are in flight) or after the whole message was in flight.
func vfExceedClass(sh *vfSideShadow, m *vfWireMsg, at time.Duration) string {
	if !m.Complete || at <= vfLastFirstT(sh, m) {
		return "before-all-fragments-sent"
	}

	return "after-all-fragments-sent"
}

func vfHeadTSNs(t []uint32) []uint32 {
	if len(t) > 4 {
		return t[:4]
	}

	return t
}

func vfGenPRSpec(prop string, idx int, seed uint64) vfSpec {
	r := vfNewRand(vfHash(seed, uint64(idx), 0xC06))
	sp := vfGenTransferSpec(prop, idx, seed^0x66, 0, 150)
	sp.ID = fmt.Sprintf("%s-pr-%d", prop, idx)
	kinds := []string{"random", "random", "first", "mix", "fwdloss", "frag-partial", "timed-blackout", "last", "run"}
	sp.Kind = kinds[idx%len(kinds)]
	il := sp.A.IL && sp.B.IL
	kindName := "DATA"
	if il {
		kindName = "I-DATA"
	}
	l := vfLinkCfg{DelayUs: int64(r.Pick(5000, 10000, 20000))}
	switch r.Intn(4) {
	case 0:
		l.LossPm = r.Pick(50, 150, 300)
	case 1:
		l.DataLossPm = r.Pick(100, 300)
		l.JitterUs = l.DelayUs
	case 2:
		l.BurstPm, l.BurstLen = 40, 2+r.Intn(6)
	default:
		l.LossPm, l.DupPm, l.JitterUs = 80, 50, 2*l.DelayUs
	}
	sp.Link = l
	prStream := func(sid uint16, dir int) vfStreamCfg {
		sc := vfStreamCfg{SID: sid, Dir: dir, NMsgs: 10 + r.Intn(30), SizeMode: []string{"small", "mixed", "boundary", "tiny"}[r.Intn(4)], Reader: []string{"fast", "fast", "slow"}[r.Intn(3)]}
		sc.Unordered = r.Intn(2) == 0
		switch r.Intn(3) {
		case 0:
			sc.RelType, sc.RelVal = ReliabilityTypeRexmit, uint32(r.Pick(0, 0, 1, 2, 5)) //nolint:gosec
		case 1:
			sc.RelType, sc.RelVal = ReliabilityTypeTimed, uint32(r.Pick(0, 50, 500, 5000)) //nolint:gosec
		default:
			sc.RelType = ReliabilityTypeReliable
		}
		sc.RecvCfg = r.Intn(2) == 0
		if r.Intn(3) == 0 {
			sc.DCEPEvery = 2 + r.Intn(5)
		}
		if r.Intn(3) == 0 {
			sc.GapUs = int64(r.Pick(1000, 20000, 100000))
		}

		return sc
	}
	sp.Streams = nil
	n := 1 + r.Intn(4)
	for i := 0; i < n; i++ {
		sp.Streams = append(sp.Streams, prStream(uint16(i+1), 0)) //nolint:gosec
	}
	if r.Intn(2) == 0 {
		sp.Streams = append(sp.Streams, prStream(uint16(1+r.Intn(n)), 1)) //nolint:gosec
	}
	// one reliable ordered stream shares the association: it must be unaffected
	sp.Streams = append(sp.Streams, vfStreamCfg{SID: 40, Dir: 0, NMsgs: 10 + r.Intn(20), SizeMode: "mixed", Reader: "fast"})
	sp.A.MaxMsg = vfEffMaxMsg(&sp.A, &sp.B, len(sp.Streams), il)
	sp.B.MaxMsg = vfEffMaxMsg(&sp.B, &sp.A, len(sp.Streams), il)
	switch sp.Kind {
	case "first":
		// the very first DATA packets of the association are lost: the first message of a stream is abandoned
		s0 := &sp.Streams[0]
		s0.RelType, s0.RelVal = ReliabilityTypeRexmit, 0
		s0.GapUs = int64(r.Pick(0, 30000, 300000))
		k := 1 + r.Intn(3)
		for i := 1; i <= k; i++ {
			sp.Link.Script = append(sp.Link.Script, vfFault{Dir: 0, Kind: kindName, Nth: i, Act: "drop"})
		}
		sp.Link.LossPm, sp.Link.DataLossPm, sp.Link.BurstPm = 0, 0, 0
	case "mix":
		for i := range sp.Streams {
			if sp.Streams[i].SID != 40 {
				sp.Streams[i].Mix = true
				sp.Streams[i].RecvCfg = false
			}
		}
	case "fwdloss":
		fk := "FORWARD-TSN"
		if il {
			fk = "I-FORWARD-TSN"
		}
		k := 1 + r.Intn(3)
		for i := 1; i <= k; i++ {
			sp.Link.Script = append(sp.Link.Script, vfFault{Dir: 0, Kind: fk, Nth: i, Act: "drop"})
		}
		sp.Streams[0].RelType, sp.Streams[0].RelVal = ReliabilityTypeRexmit, 0
	case "frag-partial":
		sp.Streams[0].SizeMode = "big"
		sp.Streams[0].NMsgs = 6 + r.Intn(8)
		sp.Streams[0].RelType, sp.Streams[0].RelVal = ReliabilityTypeRexmit, uint32(r.Intn(2)) //nolint:gosec
		sp.Link.DataLossPm = r.Pick(100, 200)
	case "timed-blackout":
		sp.Streams[0].RelType, sp.Streams[0].RelVal = ReliabilityTypeTimed, uint32(r.Pick(50, 500, 2000)) //nolint:gosec
		from := int64(50000 + r.Intn(400000))
		sp.Link.Blackouts = [][3]int64{{int64(r.Pick(0, 2)), from, from + int64(r.Pick(3, 8, 20))*1000000}}
		sp.A.RTOMaxMs = 4000
	case "last":
		// the tail of the workload is lost: the last messages of a stream are abandoned
		sp.Streams[0].RelType, sp.Streams[0].RelVal = ReliabilityTypeRexmit, 0
		sp.Streams[0].NMsgs = 5 + r.Intn(5)
		sp.Streams[0].GapUs = 50000
		from := int64(sp.Streams[0].NMsgs-2) * 50000
		sp.Link.Blackouts = [][3]int64{{0, from, from + 3000000}}
	case "run":
		sp.Streams[0].RelType, sp.Streams[0].RelVal = ReliabilityTypeRexmit, 0
		sp.Streams[0].GapUs = 10000
		sp.Streams[0].NMsgs = 40
		from := int64(100000 + r.Intn(100000))
		sp.Link.Blackouts = [][3]int64{{0, from, from + int64(r.Pick(50, 150))*1000}}
	}

	return sp
}

func vfRunPR(t *testing.T, spec *vfSpec, res *vfRes) {
	o := vfXferOpts{mon: vfMonDefault(spec), hsProp: "C04"}
	o.afterMonitors = func(s *vfSim, w *vfWork, mo *vfMonOut) {
		vfCheckPRWire(s, w, mo, s.res.get("drained") == 1)
	}
	out := vfRunTransfer(t, spec, res, o)
	vfNoteWrap(spec, res, out.mon)
}

func init() { //nolint:gochecknoinits
	for _, pid := range []string{"C06", "C07"} {
		pid := pid
		vfRegister(&vfProperty{
			id: pid,
			list: func(tier string, seed uint64, race bool) []vfSpec {
				n := vfTierN(tier, 270, 4000)
				if race {
					n = vfTierN(tier, 36, 200)
				}
				out := make([]vfSpec, 0, n)
				for i := 0; i < n; i++ {
					out = append(out, vfGenPRSpec(pid, i, seed))
				}

				return out
			},
			run: func(t *testing.T, spec *vfSpec, res *vfRes) {
				vfRunPR(t, spec, res)
				fr := "DATA"
				if spec.A.IL && spec.B.IL {
					fr = "I-DATA"
				}
				if pid == "C06" {
					res.res.Nontrivial = res.has("abandoned") && res.get("msgs_delivered") > 0
				} else {
					res.res.Nontrivial = res.get("c07_fwdtsn_delivered") > 0 && res.has("abandoned")
				}
				res.res.Sig = fmt.Sprintf("%s|%s|%s", spec.Kind, fr, res.mechs())
				res.res.Sample = map[string]any{
					"kind": spec.Kind, "framing": fr, "streams": spec.Streams, "link": spec.Link,
					"abandoned_msgs": res.get("c07_abandoned_msgs"), "delivered_msgs": res.get("c07_delivered_msgs"),
					"forward_tsn_written": res.get("c07_fwdtsn_written"), "forward_tsn_delivered": res.get("c07_fwdtsn_delivered"),
					"rexmit_tsns_checked": res.get("c06_rexmit_tsns_checked"), "timed_tsns_checked": res.get("c06_timed_tsns_checked"),
				}
			},
		})
	}
}
