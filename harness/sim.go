//go:build verif

package sctp

// A simulation run: two real associations over vfNet inside a synctest bubble,
// scripted randomness, captured logger, hook dispatcher, snapshots.

import (
	"context"
	"errors"
	"fmt"
	"runtime"
	"syscall"
	"strings"
	"sync"
	"sync/atomic"
	"testing"
	"testing/synctest"
	"time"

	"github.com/pion/logging"
)

// ---------------------------------------------------------------- scripted randomness

type vfScriptRand struct {
	mu       sync.Mutex
	q        []uint32
	fallback *vfRand
	consumed int
}

func (g *vfScriptRand) push(vs ...uint32) {
	g.mu.Lock()
	g.q = append(g.q, vs...)
	g.mu.Unlock()
}

func (g *vfScriptRand) Uint32() uint32 {
	g.mu.Lock()
	defer g.mu.Unlock()
	g.consumed++
	if len(g.q) > 0 {
		v := g.q[0]
		g.q = g.q[1:]

		return v
	}

	return g.fallback.Uint32()
}

func (g *vfScriptRand) Uint64() uint64 {
	return uint64(g.Uint32())<<32 | uint64(g.Uint32())
}

func (g *vfScriptRand) Intn(n int) int {
	if n <= 0 {
		return 0
	}

	return int(g.Uint32() % uint32(n)) //nolint:gosec
}

func (g *vfScriptRand) GenerateString(n int, runes string) string {
	b := make([]byte, n)
	for i := range b {
		b[i] = runes[g.Intn(len(runes))]
	}

	return string(b)
}

// ---------------------------------------------------------------- captured logger

type vfLogSink struct {
	mu     sync.Mutex
	errors []string
	warns  int64
	nErr   int64
}

type vfLogger struct {
	sink *vfLogSink
}

func (l *vfLogger) Trace(string)          {}
func (l *vfLogger) Tracef(string, ...any) {}
func (l *vfLogger) Debug(string)          {}
func (l *vfLogger) Debugf(string, ...any) {}
func (l *vfLogger) Info(string)           {}
func (l *vfLogger) Infof(string, ...any)  {}
func (l *vfLogger) Warn(string)           { atomic.AddInt64(&l.sink.warns, 1) }
func (l *vfLogger) Warnf(string, ...any)  { atomic.AddInt64(&l.sink.warns, 1) }
func (l *vfLogger) Error(msg string)      { l.sink.add(msg) }
func (l *vfLogger) Errorf(format string, args ...any) {
	l.sink.add(fmt.Sprintf(format, args...))
}

func (s *vfLogSink) add(m string) {
	s.mu.Lock()
	s.nErr++
	if len(s.errors) < 200 {
		s.errors = append(s.errors, m)
	}
	s.mu.Unlock()
}

func (s *vfLogSink) lines() []string {
	s.mu.Lock()
	defer s.mu.Unlock()
	out := make([]string, len(s.errors))
	copy(out, s.errors)

	return out
}

type vfLogFactory struct{ sink *vfLogSink }

func (f *vfLogFactory) NewLogger(string) logging.LeveledLogger { return &vfLogger{sink: f.sink} }

// ---------------------------------------------------------------- snapshots and hook events

// vfSnap is a consistent copy of association state taken under a.lock.
type vfSnap struct {
	State       uint32
	CWND        uint32
	RWND        uint32
	SSThresh    uint32
	InflightB   int
	InflightN   int
	PendingB    int
	PendingN    int
	CumAck      uint32
	AdvPeer     uint32
	NextTSN     uint32
	PeerLastTSN uint32
	RecvQ       int
	Credit      uint32
	InFR        bool
	SRTT        float64
	RTO         float64
	T3Running   bool
	AckState    int
	UseIL       bool
}

// vfChunksEndEv: state of the receive queue right after a packet was processed (hook in handleChunksEnd).
type vfChunksEndEv struct {
	Seq   int64
	Side  int
	RecvQ int
	T     time.Duration
	Cum   uint32 // the sender-side cumulative ack point after the packet (moves when a SACK acknowledged the earliest chunk)
}

type vfHookEv struct {
	Seq  int64
	T    time.Duration
	Side int
	Ev   int
	TSN  uint32
	Len  int
	NSent uint32
	Age   time.Duration // now - chunk.since at the hook
	Snap vfSnap
}

func vfSnapLocked(a *Association) vfSnap {
	s := vfSnap{
		State: a.getState(), CWND: a.CWND(), RWND: a.RWND(), SSThresh: a.ssthresh,
		InflightB: a.inflightQueue.getNumBytes(), InflightN: a.inflightQueue.size(),
		PendingB: a.pendingQueue.getNumBytes(), PendingN: a.pendingQueue.size(),
		CumAck: a.cumulativeTSNAckPoint, AdvPeer: a.advancedPeerTSNAckPoint, NextTSN: a.myNextTSN,
		PeerLastTSN: a.peerLastTSN(), RecvQ: a.payloadQueue.size(), Credit: a.getMyReceiverWindowCredit(),
		InFR: a.inFastRecovery, SRTT: a.SRTT(), RTO: a.rtoMgr.getRTO(), AckState: a.ackState, UseIL: a.useInterleaving,
	}

	return s
}

// ---------------------------------------------------------------- sim

type vfSim struct {
	t    *testing.T
	spec *vfSpec
	res  *vfRes
	net  *vfNet
	rnd  *vfRand
	sink *vfLogSink

	mu       sync.Mutex
	assoc    [2]*Association
	connErr  [2]error
	connDone [2]chan struct{}
	hookLog  []*vfHookEv
	chunksEnd []vfChunksEndEv
	invEvery int
	invCount [2]int
	yieldCnt atomic.Int64
	hookOrder uint64 // rolling hash of hook/yield order (C20 evidence)
	nHook    int64
	gatherAdmits [2]int
	probeInGather [2]bool
	apiMu    sync.Mutex
	api      []*vfAPIEv
	apiSeq   atomic.Int64
	estabAt  time.Duration
	closed   bool
	lockOrderSeen bool
	extraHook func(a *Association, side int, ev int, c *chunkPayloadData)
	noInv    bool
	puppet   [2]bool
}

type vfSimNetLink struct{ sim *vfSim }

var vfSimByNet sync.Map //nolint:gochecknoglobals // *vfNet -> *vfSim

func vfSimOf(a *Association) (*vfSim, int) {
	c, ok := a.netConn.(*vfConn)
	if !ok {
		return nil, 0
	}
	v, ok := vfSimByNet.Load(c.net)
	if !ok {
		return nil, 0
	}

	return v.(*vfSim), c.side //nolint:forcetypeassert
}

func vfGlobalHook(a *Association, ev int, c *chunkPayloadData) {
	sim, side := vfSimOf(a)
	if sim == nil {
		return
	}
	sim.onHook(a, side, ev, c)
}

func vfGlobalYield(a *Association, site int) {
	sim, side := vfSimOf(a)
	if sim == nil {
		return
	}
	sim.onYield(a, side, site)
}

func vfInstallHooks() {
	h := vfHookFunc(vfGlobalHook)
	y := vfYieldFunc(vfGlobalYield)
	vfHookFn.Store(&h)
	vfYieldFn.Store(&y)
}

func (s *vfSim) register(a *Association, side int) {
	s.mu.Lock()
	if s.assoc[side] == nil {
		s.assoc[side] = a
	}
	s.mu.Unlock()
}

func (s *vfSim) getAssoc(side int) *Association {
	s.mu.Lock()
	defer s.mu.Unlock()

	return s.assoc[side]
}

// onHook runs with a.lock held.
func (s *vfSim) onHook(a *Association, side int, ev int, c *chunkPayloadData) {
	s.register(a, side)
	atomic.AddInt64(&s.nHook, 1)
	vfProgress.Add(1)
	switch ev {
	case vfEvChunksEnd, vfEvGatherEnd, vfEvTimerEnd:
		if !s.noInv {
			s.invCount[side]++
			if s.invEvery <= 1 || s.invCount[side]%s.invEvery == 0 || a.inflightQueue.size() < 64 {
				vfCheckInvariants(a, side, s.res, ev)
			}
		}
		if ev == vfEvTimerEnd {
			// Lock order: the association calls start/stop on its timers under a.lock, so a timer must never call the
			// association (which takes a.lock) with its own mutex held. Here a.lock is held inside a timer's
			// observer call: every timer mutex must be free (others hold one only for a few instructions).
			for name, tm := range map[string]*rtxTimer{"T1-init": a.t1Init, "T1-cookie": a.t1Cookie, "T2-shutdown": a.t2Shutdown, "T3-rtx": a.t3RTX, "reconfig": a.tReconfig} {
				if tm == nil {
					continue
				}
				if s.lockOrderSeen {
					break
				}
				// another goroutine may hold the mutex for a few instructions, and on a loaded machine its thread may
				// be off the CPU for milliseconds: the bound is 3 s of real time (the bubble's clock is virtual)
				free := false
				limit := vfRealNanos() + 3e9
				for i := 0; !free; i++ {
					if tm.mutex.TryLock() {
						tm.mutex.Unlock() //nolint:staticcheck
						free = true
					} else {
						runtime.Gosched()
						if i%64 == 63 && vfRealNanos() > limit {
							break
						}
					}
				}
				s.res.count("c20_timer_lock_order_checked", 1)
				if !free {
					s.lockOrderSeen = true
					s.res.violate("C20", "lock-order/timer-mutex-held-in-callback", "side %d: the %s timer mutex stays locked (3 s of real time) while a retransmission timer's observer runs under the association lock: the timer calls the association with its own mutex held, and the association calls start/stop on its timers under its lock (lock-order inversion, deadlock when the two meet)", side, name)
				}
			}
		}
		if ev == vfEvGatherEnd {
			s.mu.Lock()
			s.gatherAdmits[side] = 0
			s.probeInGather[side] = false
			s.mu.Unlock()
		}
		if ev == vfEvChunksEnd {
			// the receiver's own view after a packet was processed: does it still see a gap?
			ce := vfChunksEndEv{Seq: s.net.seq.Add(1), Side: side, RecvQ: a.payloadQueue.size(), T: s.net.now(), Cum: a.cumulativeTSNAckPoint}
			s.mu.Lock()
			s.chunksEnd = append(s.chunksEnd, ce)
			s.mu.Unlock()
		}
		if s.extraHook != nil {
			s.extraHook(a, side, ev, c)
		}

		return
	}
	he := &vfHookEv{Seq: s.net.seq.Add(1), T: s.net.now(), Side: side, Ev: ev, Snap: vfSnapLocked(a)}
	if c != nil {
		he.TSN = c.tsn
		he.Len = len(c.userData)
		he.NSent = c.nSent
		he.Age = time.Since(c.since)
	}
	s.mu.Lock()
	s.hookLog = append(s.hookLog, he)
	s.hookOrder = vfHash(s.hookOrder, uint64(side), uint64(ev))
	switch ev {
	case vfEvAdmit:
		s.gatherAdmits[side]++
	case vfEvAdmitProbe:
		if s.gatherAdmits[side] != 0 {
			s.res.violate("C10", "probe/after-admits", "side %d: window probe admitted after %d regular admissions in the same gather", side, s.gatherAdmits[side])
		}
		s.probeInGather[side] = true
		s.gatherAdmits[side]++
	}
	s.mu.Unlock()
	if s.extraHook != nil {
		s.extraHook(a, side, ev, c)
	}
}

// vfRealNanos: wall clock that synctest does not virtualise.
func vfRealNanos() int64 {
	var tv syscall.Timeval
	_ = syscall.Gettimeofday(&tv)

	return tv.Sec*1e9 + tv.Usec*1e3
}

// onYield runs at suspension points without the association lock.
func (s *vfSim) onYield(_ *Association, side int, site int) {
	if s.spec.Yield <= 0 {
		return
	}
	n := s.yieldCnt.Add(1)
	h := vfHash(s.spec.Seed, uint64(site), uint64(n), uint64(side))
	if int(h%1000) >= s.spec.Yield {
		return
	}
	s.mu.Lock()
	s.hookOrder = vfHash(s.hookOrder, 0x100+uint64(site), uint64(side))
	s.mu.Unlock()
	mode := (h >> 12) % 4
	if s.spec.x("yield_nosleep", 0) == 1 {
		mode %= 2 // only scheduler yields: a virtual sleep would make a half-finished operation look quiescent
	}
	switch mode {
	case 0:
		runtime.Gosched()
	case 1:
		for i := 0; i < int((h>>20)%8)+1; i++ {
			runtime.Gosched()
		}
	case 2:
		time.Sleep(time.Duration((h>>24)%200+1) * time.Microsecond)
	case 3:
		time.Sleep(time.Duration((h>>24)%5+1) * time.Millisecond)
	}
}

func vfOptsFor(c *vfSideCfg, conn *vfConn, sink *vfLogSink, name string) []AssociationOption {
	opts := []AssociationOption{
		WithNetConn(conn), WithLoggerFactory(&vfLogFactory{sink: sink}), WithName(name),
		WithEnableInterleaving(c.IL), WithEnableZeroChecksum(c.ZC),
	}
	if c.MTU != 0 {
		opts = append(opts, WithMTU(c.MTU))
	}
	if c.RecvBuf != 0 {
		opts = append(opts, WithMaxReceiveBufferSize(c.RecvBuf))
	}
	if c.MaxMsg != 0 {
		opts = append(opts, WithMaxMessageSize(c.MaxMsg))
	}
	if c.BlockWrite {
		opts = append(opts, WithBlockWrite(true))
	}
	if c.RTOMaxMs != 0 {
		opts = append(opts, WithRTOMax(c.RTOMaxMs))
	}
	if c.MinCwnd != 0 {
		opts = append(opts, WithMinCwnd(c.MinCwnd))
	}
	if c.MaxReasm != 0 {
		opts = append(opts, WithMaxReassemblyQueueEntries(c.MaxReasm))
	}
	switch c.Sched {
	case "rr":
		opts = append(opts, WithInterleavingOptions(WithInterleavingRoundRobinScheduler()))
	case "wfq":
		var io []AssociationInterleavingOption
		io = append(io, WithInterleavingWeightedFairQueueingScheduler())
		for i, w := range c.Weights {
			if w > 0 {
				io = append(io, WithInterleavingWeightedFairQueueingWeight(uint16(i+1), uint16(w))) //nolint:gosec
			}
		}
		opts = append(opts, WithInterleavingOptions(io...))
	}

	return opts
}

func vfNewSim(t *testing.T, spec *vfSpec, res *vfRes) *vfSim {
	t.Helper()
	s := &vfSim{
		t: t, spec: spec, res: res, rnd: vfNewRand(spec.Seed ^ 0x5151), sink: &vfLogSink{},
		invEvery: 8,
	}
	s.connDone[0] = make(chan struct{})
	s.connDone[1] = make(chan struct{})
	s.net = vfNewNet(spec.Link, spec.Seed)
	s.net.snapFn = func(side int) *vfSnap {
		a := s.getAssoc(side)
		if a == nil {
			return nil
		}
		a.lock.RLock()
		sn := vfSnapLocked(a)
		a.lock.RUnlock()
		sn.T3Running = a.t3RTX.isRunning()

		return &sn
	}
	vfSimByNet.Store(s.net, s)
	if spec.Yield > 0 {
		s.net.closeGrace = 50 * time.Millisecond
	}
	vfInstallHooks()
	go s.net.pump()

	return s
}

// start brings both associations up according to spec.Roles and returns when
// both connect calls have returned (established or failed).
func (s *vfSim) start() bool {
	gen := &vfScriptRand{fallback: vfNewRand(s.spec.Seed ^ 0xabc)}
	globalMathRandomGenerator = gen
	roles := s.spec.Roles
	if roles == "" {
		roles = "cs"
	}
	cfgs := [2]*vfSideCfg{&s.spec.A, &s.spec.B}
	if roles == "snap" {
		return s.startSNAP(gen)
	}
	skew := time.Duration(s.spec.x("skew_us", 0)) * time.Microsecond
	for side := 0; side < 2; side++ {
		tag := cfgs[side].Tag
		if tag == 0 {
			tag = 0x1000 + uint32(side) //nolint:gosec
		}
		gen.push(cfgs[side].InitTSN, tag)
		side := side
		go func() {
			defer close(s.connDone[side])
			opts := vfOptsFor(cfgs[side], s.net.conns[side], s.sink, fmt.Sprintf("vf%c", 'A'+side))
			var a *Association
			var err error
			if side == 0 || roles == "cc" {
				co := make([]ClientOption, len(opts))
				for i, o := range opts {
					co[i] = o
				}
				a, err = ClientWithOptions(co...)
			} else {
				so := make([]ServerOption, len(opts))
				for i, o := range opts {
					so[i] = o
				}
				a, err = ServerWithOptions(so...)
			}
			s.mu.Lock()
			s.connErr[side] = err
			if a != nil {
				s.assoc[side] = a
			}
			s.mu.Unlock()
		}()
		// let this side consume its scripted random values before the next one is created
		s.net.vfWait()
		if side == 0 && skew > 0 {
			time.Sleep(skew)
		}
	}
	// if one connect call fails the other may wait for ever: close its transport (that is what an
	// application would do) so that both calls return
	select {
	case <-s.connDone[0]:
		s.mu.Lock()
		failed := s.connErr[0] != nil
		s.mu.Unlock()
		if failed {
			_ = s.net.conns[1].Close()
			_ = s.net.conns[0].Close()
		}
	case <-s.connDone[1]:
		s.mu.Lock()
		failed := s.connErr[1] != nil
		s.mu.Unlock()
		if failed {
			_ = s.net.conns[0].Close()
			_ = s.net.conns[1].Close()
		}
	}
	<-s.connDone[0]
	<-s.connDone[1]
	s.estabAt = s.net.now()
	s.net.armFaults()
	s.mu.Lock()
	ok := s.connErr[0] == nil && s.connErr[1] == nil && s.assoc[0] != nil && s.assoc[1] != nil
	s.mu.Unlock()

	return ok
}

func (s *vfSim) startSNAP(gen *vfScriptRand) bool {
	cfgs := [2]*vfSideCfg{&s.spec.A, &s.spec.B}
	var tokens [2][]byte
	for side := 0; side < 2; side++ {
		tag := cfgs[side].Tag
		if tag == 0 {
			tag = 0x1000 + uint32(side) //nolint:gosec
		}
		gen.push(cfgs[side].InitTSN, tag)
		opts := vfOptsFor(cfgs[side], s.net.conns[side], s.sink, "tok")
		co := make([]ClientOption, len(opts))
		for i, o := range opts {
			co[i] = o
		}
		tok, err := GenerateOutOfBandToken(co...)
		if err != nil {
			s.connErr[side] = err
			close(s.connDone[0])
			close(s.connDone[1])

			return false
		}
		tokens[side] = tok
	}
	for side := 0; side < 2; side++ {
		// SNAP association draws one tag value
		gen.push(0x2000 + uint32(side)) //nolint:gosec
		opts := vfOptsFor(cfgs[side], s.net.conns[side], s.sink, fmt.Sprintf("vf%c", 'A'+side))
		opts = append(opts, WithSNAP(tokens[side], tokens[1-side]))
		co := make([]ClientOption, len(opts))
		for i, o := range opts {
			co[i] = o
		}
		a, err := ClientWithOptions(co...)
		s.mu.Lock()
		s.connErr[side] = err
		if a != nil {
			s.assoc[side] = a
		}
		s.mu.Unlock()
		close(s.connDone[side])
	}
	s.estabAt = s.net.now()
	s.net.armFaults()

	return s.connErr[0] == nil && s.connErr[1] == nil
}

func (s *vfSim) A() *Association { return s.getAssoc(0) }
func (s *vfSim) B() *Association { return s.getAssoc(1) }

// quiesce waits until every other goroutine of the bubble is durably blocked.
func (s *vfSim) quiesce() { s.net.vfWait() }

// sleep advances virtual time.
func (s *vfSim) sleep(d time.Duration) { time.Sleep(d) }

// snapshot of a side at a quiescent point (takes the lock anyway).
func (s *vfSim) snap(side int) vfSnap {
	a := s.getAssoc(side)
	if a == nil {
		return vfSnap{}
	}
	a.lock.RLock()
	defer a.lock.RUnlock()

	return vfSnapLocked(a)
}

// teardown closes both associations and stops the link. It must leave no
// goroutine behind, otherwise the bubble cannot end.
func (s *vfSim) teardown() {
	if s.closed {
		return
	}
	s.closed = true
	for side := 0; side < 2; side++ {
		if a := s.getAssoc(side); a != nil {
			ev := s.apiCall(side, "aclose", 0)
			err := a.Close()
			s.apiRet(ev, 0, err)
		} else {
			_ = s.net.conns[side].Close()
		}
	}
	<-s.connDone[0]
	<-s.connDone[1]
	s.net.stop()
	vfSimByNet.Delete(s.net)
}

// leakCheck is called after teardown and after sleeping long enough for every
// legitimately delayed goroutine to finish; it returns the stacks of goroutines
// that still have pion/sctp (non-harness) frames.
func vfLeakedGoroutines() []string {
	buf := make([]byte, 4<<20)
	n := runtime.Stack(buf, true)
	var out []string
	for _, b := range strings.Split(string(buf[:n]), "\n\n") {
		if !strings.Contains(b, "synctest bubble") && !strings.Contains(b, "bubble") {
			// goroutines outside the bubble (test runner, watchdog)
			if !vfHasNonHarnessFrame(b) {
				continue
			}
		}
		if strings.Contains(b, "TestVF") || strings.Contains(b, "vfWatchLoop") {
			continue
		}
		if vfHasNonHarnessFrame(b) {
			out = append(out, b)
		}
	}

	return out
}

// vfRunBubble runs f inside a synctest bubble as a subtest.
func vfRunBubble(t *testing.T, name string, f func(t *testing.T)) {
	t.Helper()
	t.Run(name, func(t *testing.T) {
		synctest.Test(t, f)
	})
}

var errVFTimeout = errors.New("vf: virtual timeout") //nolint:gochecknoglobals

// vfWaitCh waits for ch or a virtual timeout.
func vfWaitCh(ch <-chan struct{}, d time.Duration) error {
	t := time.NewTimer(d)
	defer t.Stop()
	select {
	case <-ch:
		return nil
	case <-t.C:
		return errVFTimeout
	}
}

func vfCtxTimeout(d time.Duration) (context.Context, context.CancelFunc) {
	return context.WithTimeout(context.Background(), d)
}
