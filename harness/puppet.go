//go:build verif

package sctp

// Puppet: a harness-driven packet-level peer. It completes a real handshake as
// the passive side (answers INIT with INIT-ACK, COOKIE-ECHO with COOKIE-ACK) and
// then sends whatever the scenario scripts; optionally it acknowledges DATA.

import (
	"encoding/binary"
	"sync"
	"time"
)

type vfPuppetCfg struct {
	ARwnd       uint32
	InitTSN     uint32
	Tag         uint32
	ExtraParams []byte // raw TLVs appended to the INIT-ACK (after cookie)
	Ext         []byte // supported-extensions chunk types; nil = {RECONFIG, FORWARD-TSN}
	AutoAck     bool   // SACK every DATA packet cumulatively
	AckARwnd    uint32 // a_rwnd to advertise in SACKs (0 -> ARwnd)
	ZeroCsumOut bool   // write packets with zero checksum
	Active      bool   // the puppet initiates (INIT, COOKIE-ECHO); the real association is the server
	FirstExt    []byte // Active only: a first INIT lists these extensions, its INIT-ACK is ignored ("lost") and the INIT is sent again with Ext
}

type vfPuppet struct {
	sim  *vfSim
	side int
	conn *vfConn
	cfg  vfPuppetCfg

	mu       sync.Mutex
	peerTag  uint32
	peerTSN  uint32 // peer's initial TSN
	nextTSN  uint32
	cum      uint32 // cumulative TSN received from the peer
	got      map[uint32]bool
	rx       []*vfPkt
	estab    chan struct{}
	done     chan struct{}
	estabSet bool
	peerExt  vfInitExt
	peerInit *vfChunk

	ignoreInitAcks int
}

func (s *vfSim) newPuppet(side int, cfg vfPuppetCfg) *vfPuppet {
	if cfg.ARwnd == 0 {
		cfg.ARwnd = 1 << 20
	}
	if cfg.Tag == 0 {
		cfg.Tag = 0x70707070
	}
	p := &vfPuppet{
		sim: s, side: side, conn: s.net.conns[side], cfg: cfg, got: map[uint32]bool{},
		estab: make(chan struct{}), done: make(chan struct{}), nextTSN: cfg.InitTSN,
	}
	s.puppet[side] = true
	go p.serve()
	if cfg.Active {
		ext := cfg.Ext
		if ext == nil {
			ext = []byte{vfCtReconfig, vfCtForwardTSN}
		}
		if cfg.FirstExt != nil {
			ext = cfg.FirstExt
			p.ignoreInitAcks = 1
		}
		p.sendInit(ext)
	}

	return p
}

func (p *vfPuppet) sendInit(ext []byte) {
	val := vfU32(p.cfg.Tag, p.cfg.ARwnd, 0xffffffff, p.cfg.InitTSN)
	val = append(val, vfTLV(0x8008, ext)...)
	val = append(val, p.cfg.ExtraParams...)
	_, _ = p.conn.Write(vfNewPacket(5000, 5000, 0).chunk(vfCtInit, 0, val).bytes(true))
}

func vfTLV(typ uint16, val []byte) []byte {
	b := make([]byte, 4+len(val))
	binary.BigEndian.PutUint16(b, typ)
	binary.BigEndian.PutUint16(b[2:], uint16(4+len(val))) //nolint:gosec
	copy(b[4:], val)
	for len(b)%4 != 0 {
		b = append(b, 0)
	}

	return b
}

func (p *vfPuppet) write(b *vfBuilder) {
	_, _ = p.conn.Write(b.bytes(!p.cfg.ZeroCsumOut))
}

func (p *vfPuppet) pkt() *vfBuilder {
	p.mu.Lock()
	defer p.mu.Unlock()

	return vfNewPacket(5000, 5000, p.peerTag)
}

func (p *vfPuppet) serve() {
	defer close(p.done)
	buf := make([]byte, 65536)
	for {
		n, err := p.conn.Read(buf)
		if err != nil {
			return
		}
		raw := make([]byte, n)
		copy(raw, buf[:n])
		d := vfDecode(raw)
		p.mu.Lock()
		p.rx = append(p.rx, d)
		p.mu.Unlock()
		hasData := false
		for i := range d.Chunks {
			c := &d.Chunks[i]
			switch c.Type {
			case vfCtInit:
				p.mu.Lock()
				p.peerTag = c.InitTag
				p.peerTSN = c.InitTSN
				p.cum = c.InitTSN - 1
				p.peerExt = vfInitExtensions(c)
				cc := *c
				p.peerInit = &cc
				p.mu.Unlock()
				ext := p.cfg.Ext
				if ext == nil {
					ext = []byte{vfCtReconfig, vfCtForwardTSN}
				}
				val := vfU32(p.cfg.Tag, p.cfg.ARwnd, 0xffffffff, p.cfg.InitTSN) // OS/IS = 65535 each
				val = append(val, vfTLV(7, []byte("vf-puppet-cookie-0123456789abcdef"))...)
				val = append(val, vfTLV(0x8008, ext)...)
				val = append(val, p.cfg.ExtraParams...)
				b := vfNewPacket(5000, 5000, c.InitTag).chunk(vfCtInitAck, 0, val)
				_, _ = p.conn.Write(b.bytes(true))
			case vfCtInitAck:
				if !p.cfg.Active {
					break
				}
				if p.ignoreInitAcks > 0 {
					// this INIT-ACK "was lost": the INIT goes out again, with the final list of extensions
					p.ignoreInitAcks--
					ext := p.cfg.Ext
					if ext == nil {
						ext = []byte{vfCtReconfig, vfCtForwardTSN}
					}
					p.sendInit(ext)

					break
				}
				p.mu.Lock()
				p.peerTag = c.InitTag
				p.peerTSN = c.InitTSN
				p.cum = c.InitTSN - 1
				p.peerExt = vfInitExtensions(c)
				cc := *c
				p.peerInit = &cc
				p.mu.Unlock()
				var cookie []byte
				for _, pr := range c.Params {
					if pr.Type == 7 {
						cookie = pr.Val
					}
				}
				// the COOKIE-ECHO always carries a correct CRC32c (it must, whatever was negotiated)
				_, _ = p.conn.Write(vfNewPacket(5000, 5000, c.InitTag).chunk(vfCtCookieEcho, 0, cookie).bytes(true))
			case vfCtCookieAck:
				p.mu.Lock()
				if p.cfg.Active && !p.estabSet {
					p.estabSet = true
					close(p.estab)
				}
				p.mu.Unlock()
			case vfCtCookieEcho:
				p.write(p.pkt().chunk(vfCtCookieAck, 0, nil))
				p.mu.Lock()
				if !p.estabSet {
					p.estabSet = true
					close(p.estab)
				}
				p.mu.Unlock()
			case vfCtData, vfCtIData:
				hasData = true
				p.mu.Lock()
				p.got[c.TSN] = true
				for p.got[p.cum+1] {
					p.cum++
				}
				p.mu.Unlock()
			case vfCtHeartbeat:
				p.write(p.pkt().chunk(vfCtHeartbeatAck, 0, c.Val))
			case vfCtShutdown:
				p.write(p.pkt().chunk(vfCtShutdownAck, 0, nil))
			case vfCtForwardTSN, vfCtIForwardTSN:
				p.mu.Lock()
				if sna32GT(c.NewCum, p.cum) {
					p.cum = c.NewCum
					for p.got[p.cum+1] {
						p.cum++
					}
				}
				p.mu.Unlock()
				hasData = true
			}
		}
		if hasData && p.cfg.AutoAck {
			p.sack()
		}
	}
}

func (p *vfPuppet) sack() {
	p.mu.Lock()
	cum := p.cum
	p.mu.Unlock()
	ar := p.cfg.AckARwnd
	if ar == 0 {
		ar = p.cfg.ARwnd
	}
	p.write(p.pkt().chunk(vfCtSack, 0, vfSackVal(cum, ar, nil, nil)))
}

func (p *vfPuppet) waitEstablished(d time.Duration) bool {
	return vfWaitCh(p.estab, d) == nil
}

func (p *vfPuppet) takeTSN() uint32 {
	p.mu.Lock()
	defer p.mu.Unlock()
	t := p.nextTSN
	p.nextTSN++

	return t
}

func (p *vfPuppet) received() []*vfPkt {
	p.mu.Lock()
	defer p.mu.Unlock()

	return append([]*vfPkt(nil), p.rx...)
}

// startPuppetClient starts the real association on side 0 as a client against
// a puppet on side 1 and waits for establishment.
func (s *vfSim) startWithPuppet(cfg vfPuppetCfg) (*vfPuppet, bool) {
	gen := &vfScriptRand{fallback: vfNewRand(s.spec.Seed ^ 0xabc)}
	globalMathRandomGenerator = gen
	tag := s.spec.A.Tag
	if tag == 0 {
		tag = 0x1000
	}
	gen.push(s.spec.A.InitTSN, tag)
	p := s.newPuppet(1, cfg)
	go func() {
		defer close(s.connDone[0])
		opts := vfOptsFor(&s.spec.A, s.net.conns[0], s.sink, "vfA")
		var a *Association
		var err error
		if cfg.Active {
			so := make([]ServerOption, len(opts))
			for i, o := range opts {
				so[i] = o
			}
			a, err = ServerWithOptions(so...)
		} else {
			co := make([]ClientOption, len(opts))
			for i, o := range opts {
				co[i] = o
			}
			a, err = ClientWithOptions(co...)
		}
		s.mu.Lock()
		s.connErr[0] = err
		if a != nil {
			s.assoc[0] = a
		}
		s.mu.Unlock()
	}()
	close(s.connDone[1])
	<-s.connDone[0]
	s.estabAt = s.net.now()
	s.net.armFaults()
	s.mu.Lock()
	ok := s.connErr[0] == nil && s.assoc[0] != nil
	s.mu.Unlock()

	return p, ok
}

func (s *vfSim) teardownPuppet(p *vfPuppet) {
	if s.closed {
		return
	}
	s.closed = true
	if a := s.getAssoc(0); a != nil {
		ev := s.apiCall(0, "aclose", 0)
		err := a.Close()
		s.apiRet(ev, 0, err)
	} else {
		_ = s.net.conns[0].Close()
	}
	_ = s.net.conns[1].Close()
	<-p.done
	s.net.stop()
	vfSimByNet.Delete(s.net)
}
