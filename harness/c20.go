//go:build verif

package sctp

// C20 — the public API is safe for concurrent use.
//
// API storms inside a bubble: goroutines execute in parallel (GOMAXPROCS > 1),
// only time is virtual. The race detector watches the race-built shards; the
// deadlock watchdog, the "every call returns" oracle, the structural invariant
// walker at the hooks and a per-writer delivery oracle run in all of them.

import (
	"context"
	"encoding/binary"
	"errors"
	"fmt"
	"io"
	"os"
	"sync"
	"sync/atomic"
	"testing"
	"time"
)

const vfStormMagic = 0x5646_5354 // "VFST"

// message: magic(4) side(1) writer(1) sid(2) seq(4) size(4) filler...
func vfStormMsg(side, writer int, sid uint16, seq uint32, size int) []byte {
	if size < 16 {
		size = 16
	}
	b := make([]byte, size)
	binary.BigEndian.PutUint32(b[0:], vfStormMagic)
	b[4], b[5] = byte(side), byte(writer)
	binary.BigEndian.PutUint16(b[6:], sid)
	binary.BigEndian.PutUint32(b[8:], seq)
	binary.BigEndian.PutUint32(b[12:], uint32(size)) //nolint:gosec
	x := vfHash(uint64(side), uint64(writer), uint64(sid), uint64(seq))
	for i := 16; i < size; i++ {
		x = x*6364136223846793005 + 1442695040888963407
		b[i] = byte(x >> 56)
	}

	return b
}

func vfStormCheckMsg(b []byte) (side, writer int, sid uint16, seq uint32, ok bool) {
	if len(b) < 16 || binary.BigEndian.Uint32(b) != vfStormMagic {
		return 0, 0, 0, 0, false
	}
	side, writer = int(b[4]), int(b[5])
	sid = binary.BigEndian.Uint16(b[6:])
	seq = binary.BigEndian.Uint32(b[8:])
	if int(binary.BigEndian.Uint32(b[12:])) != len(b) {
		return side, writer, sid, seq, false
	}
	want := vfStormMsg(side, writer, sid, seq, len(b))
	for i := range b {
		if b[i] != want[i] {
			return side, writer, sid, seq, false
		}
	}

	return side, writer, sid, seq, true
}

type vfStorm struct {
	sim  *vfSim
	res  *vfRes
	spec *vfSpec

	inflight [32]atomic.Int32 // per API kind: calls currently executing
	calls    [32]atomic.Int64
	maxKinds atomic.Int32
	open     sync.Map // call id -> description of calls that have not returned
	callID   atomic.Int64

	mu       sync.Mutex
	written  map[[3]int]uint32 // (side, writer, sid) -> messages accepted
	nextSeq  map[[3]int]uint32 // (receiving side's view) (side, writer, sid) -> next expected seq
	received int64
	lateLog  []string
	cbRuns   atomic.Int64
}

var vfStormKinds = []string{ //nolint:gochecknoglobals
	"WriteSCTP", "ReadSCTP", "SetReadDeadline", "SetDeadline", "SetWriteDeadline", "SetReliabilityParams",
	"Stream.BufferedAmount", "Assoc.BufferedAmount", "Threshold", "OnBufferedAmountLow", "State", "OpenStream",
	"AcceptStream", "Stream.Close", "Getters", "ActiveHeartbeat", "SetMaxMessageSize", "Metadata",
	"Shutdown", "Close", "Abort", "SetDefaultPayloadType",
}

// call wraps one API call: bookkeeping of what is in flight and what never returned.
func (st *vfStorm) call(kind int, desc string, f func()) {
	id := st.callID.Add(1)
	vfProgress.Add(1)
	st.open.Store(id, vfStormKinds[kind]+" "+desc)
	st.inflight[kind].Add(1)
	st.calls[kind].Add(1)
	n := int32(0)
	for i := range vfStormKinds {
		if st.inflight[i].Load() > 0 {
			n++
		}
	}
	for {
		m := st.maxKinds.Load()
		if n <= m || st.maxKinds.CompareAndSwap(m, n) {
			break
		}
	}
	f()
	st.inflight[kind].Add(-1)
	st.open.Delete(id)
}

func (st *vfStorm) onRead(rside int, sid uint16, b []byte, ordered bool) {
	side, writer, msid, seq, ok := vfStormCheckMsg(b)
	if !ok {
		st.res.violate("C01", "deliver/corrupt", "side %d sid %d: a %d-byte message was read that no writer produced (header side=%d writer=%d sid=%d seq=%d)", rside, sid, len(b), side, writer, msid, seq)

		return
	}
	if msid != sid || side != 1-rside {
		st.res.violate("C01", "deliver/wrong-stream", "side %d read on sid %d a message written by side %d on sid %d", rside, sid, side, msid)

		return
	}
	k := [3]int{side, writer, int(sid)}
	st.mu.Lock()
	want := st.nextSeq[k]
	if ordered {
		if seq == want {
			st.nextSeq[k] = want + 1
		}
	}
	st.received++
	st.mu.Unlock()
	if ordered && seq != want {
		st.mu.Lock()
		for _, l := range st.lateLog {
			st.res.witness("%s", l)
		}
		st.mu.Unlock()
		st.res.witness("read side=%d sid=%d writer=%d seq=%d want=%d at %v", rside, sid, writer, seq, want, st.sim.net.now())
		st.res.violate("C01", "deliver/not-next", "side %d sid %d: message seq %d of writer %d delivered where seq %d was due (concurrent writers; per-writer order must hold on an ordered reliable stream)", rside, sid, seq, writer, want)
	}
}

//nolint:gocognit,cyclop,gocyclo,maintidx
func vfRunStorm(t *testing.T, spec *vfSpec, res *vfRes) {
	vfRunBubble(t, spec.ID, func(t *testing.T) {
		sim := vfNewSim(t, spec, res)
		if !sim.start() {
			res.inconclusive("handshake failed")
			sim.teardown()
			sim.finalLeakCheck()

			return
		}
		st := &vfStorm{sim: sim, res: res, spec: spec, written: map[[3]int]uint32{}, nextSeq: map[[3]int]uint32{}}
		assoc := [2]*Association{sim.A(), sim.B()}
		nData := int(spec.x("data_streams", 2))
		nChaos := int(spec.x("chaos_streams", 2))
		nWriters := int(spec.x("writers", 3))
		nQuery := int(spec.x("query", 2))
		nOps := int(spec.x("ops", 150))
		stop := make(chan struct{})
		var data [2][]*Stream
		for side := 0; side < 2; side++ {
			for i := 0; i < nData; i++ {
				s, err := assoc[side].OpenStream(uint16(1+i), PayloadTypeWebRTCBinary) //nolint:gosec
				if err != nil {
					res.inconclusive("OpenStream failed")

					return
				}
				data[side] = append(data[side], s)
			}
		}
		// In blocking-write mode WriteSCTP holds the stream's write mutex while it waits for the gate. A
		// goroutine parked on a mutex is not durably blocked, so a second writer queueing on that mutex
		// would freeze the bubble's virtual clock (an artefact of synctest, not a deadlock): writers of one
		// stream take turns through a channel instead.
		var wsem [2]map[uint16]chan struct{}
		for side, c := range []*vfSideCfg{&spec.A, &spec.B} {
			if !c.BlockWrite {
				continue
			}
			wsem[side] = map[uint16]chan struct{}{}
			for i := 0; i < nData; i++ {
				wsem[side][uint16(1+i)] = make(chan struct{}, 1) //nolint:gosec
			}
			for i := 0; i < nChaos; i++ {
				wsem[side][uint16(100+i)] = make(chan struct{}, 1) //nolint:gosec
			}
		}
		turn := func(side int, sid uint16, f func()) {
			if wsem[side] == nil {
				f()

				return
			}
			wsem[side][sid] <- struct{}{}
			f()
			<-wsem[side][sid]
		}
		var wgWriters, wgAll sync.WaitGroup
		sleepy := func(r *vfRand) {
			switch r.Intn(6) {
			case 0:
				time.Sleep(time.Duration(r.Intn(3000)) * time.Microsecond)
			case 1:
				time.Sleep(time.Duration(r.Intn(50)) * time.Millisecond)
			}
		}
		// every chaos stream object gets exactly one draining reader, so that unread chaos data cannot close the window
		var readers sync.Map
		ensureReader := func(s *Stream) {
			if _, loaded := readers.LoadOrStore(s, true); loaded {
				return
			}
			wgAll.Add(1)
			go func() {
				defer wgAll.Done()
				buf := make([]byte, 8192)
				for {
					_ = s.SetReadDeadline(time.Now().Add(10 * time.Second))
					var rerr error
					st.call(1, "chaos", func() { _, _, rerr = s.ReadSCTP(buf) })
					if rerr != nil && !errors.Is(rerr, ErrReadDeadlineExceeded) {
						return
					}
					select {
					case <-stop:
						if rerr != nil {
							return
						}
					default:
					}
				}
			}()
		}
		for side := 0; side < 2; side++ {
			side := side
			a := assoc[side]
			// callbacks that re-enter the API
			for i, s := range data[side] {
				s, i := s, i
				st.call(9, "", func() {
					s.OnBufferedAmountLow(func() {
						st.cbRuns.Add(1)
						_ = s.BufferedAmount()
						_ = a.BufferedAmount()
						_ = s.State()
						s.SetBufferedAmountLowThreshold(uint64(1000 * (i + 1))) //nolint:gosec
						_ = a.CWND()
					})
				})
				s.SetBufferedAmountLowThreshold(2000)
			}
			// writers
			for w := 0; w < nWriters; w++ {
				w := w
				r := vfNewRand(vfHash(spec.Seed, uint64(side), uint64(w), 0x77))
				wgWriters.Add(1)
				wgAll.Add(1)
				go func() {
					defer wgAll.Done()
					defer wgWriters.Done()
					seqs := make([]uint32, nData)
					for i := 0; i < nOps; i++ {
						di := r.Intn(nData)
						s := data[side][di]
						size := []int{16, 40, 200, 1100, 1300, 4000}[r.Intn(6)]
						msg := vfStormMsg(side, w, uint16(1+di), seqs[di], size) //nolint:gosec
						var err error
						turn(side, uint16(1+di), func() { //nolint:gosec
							st.call(0, fmt.Sprintf("side %d sid %d", side, 1+di), func() {
								if r.Intn(8) == 0 {
									_, err = s.Write(msg)
								} else {
									_, err = s.WriteSCTP(msg, PayloadTypeWebRTCBinary)
								}
							})
						})
						if err != nil {
							// a write deadline set by another goroutine may legitimately fail a blocking write
							if spec.A.BlockWrite && (errors.Is(err, context.DeadlineExceeded) || errors.Is(err, os.ErrDeadlineExceeded)) {
								continue
							}
							res.violate("C18", "write/ordinary/rejected", "storm: WriteSCTP of %d bytes on an open stream of an established association failed: %v", size, err)

							return
						}
						seqs[di]++
						st.mu.Lock()
						st.written[[3]int{side, w, 1 + di}]++
						st.mu.Unlock()
						sleepy(r)
					}
				}()
			}
			// one or two readers per data stream
			for di, s := range data[side] {
				for k := 0; k < 1+int(spec.x("double_readers", 0)); k++ {
					s, di := s, di
					wgAll.Add(1)
					go func() {
						defer wgAll.Done()
						buf := make([]byte, 8192)
						for {
							var n int
							var err error
							st.call(1, fmt.Sprintf("side %d sid %d", side, 1+di), func() { n, _, err = s.ReadSCTP(buf) })
							switch {
							case err == nil:
								// with two readers on one stream the order between them is not observable
								st.onRead(side, uint16(1+di), buf[:n], spec.x("double_readers", 0) == 0) //nolint:gosec
							case errors.Is(err, ErrReadDeadlineExceeded):
								// the stream's own read deadline (set by a query goroutine); a terminal error of the
								// association may also wrap a transport time-out and must end the reader
								_ = s.SetReadDeadline(time.Time{})
							case errors.Is(err, io.ErrShortBuffer):
								res.violate("C18", "read/short/spurious", "ReadSCTP into an 8 kB buffer reported a short buffer (largest message is 4000 bytes)")

								return
							default:
								return // EOF / closed at the end of the storm
							}
						}
					}()
				}
			}
			// query / setter goroutines
			for q := 0; q < nQuery; q++ {
				r := vfNewRand(vfHash(spec.Seed, uint64(side), uint64(q), 0x99))
				wgAll.Add(1)
				go func() {
					defer wgAll.Done()
					for i := 0; ; i++ {
						select {
						case <-stop:
							return
						default:
						}
						s := data[side][r.Intn(nData)]
						switch r.Intn(16) {
						case 0:
							st.call(2, "", func() { _ = s.SetReadDeadline(time.Now().Add(time.Duration(r.Intn(20)) * time.Millisecond)) })
						case 1:
							st.call(3, "", func() { _ = s.SetDeadline(time.Now().Add(time.Duration(1+r.Intn(50)) * time.Millisecond)) })
							st.call(3, "", func() { _ = s.SetDeadline(time.Time{}) })
						case 2:
							st.call(4, "", func() { _ = s.SetWriteDeadline(time.Time{}) })
						case 3:
							st.call(5, "", func() { s.SetReliabilityParams(false, ReliabilityTypeReliable, 0) })
						case 4:
							st.call(6, "", func() { _ = s.BufferedAmount() })
						case 5:
							st.call(7, "", func() { _ = a.BufferedAmount() })
						case 6:
							st.call(8, "", func() {
								_ = s.BufferedAmountLowThreshold()
								s.SetBufferedAmountLowThreshold(uint64(r.Intn(5000))) //nolint:gosec
							})
						case 7:
							st.call(10, "", func() { _ = s.State(); _ = s.StreamIdentifier() })
						case 8:
							st.call(11, "", func() { _, _ = a.OpenStream(uint16(1+r.Intn(nData)), PayloadTypeWebRTCBinary) }) //nolint:gosec
						case 9:
							st.call(14, "", func() {
								_ = a.BytesSent()
								_ = a.BytesReceived()
								_ = a.MTU()
								_ = a.CWND()
								_ = a.RWND()
								_ = a.SRTT()
								_ = a.MaxMessageSize()
							})
						case 10:
							st.call(15, "", func() { a.ActiveHeartbeat() })
						case 11:
							st.call(16, "", func() { a.SetMaxMessageSize(65536) })
						case 12:
							st.call(17, "", func() { _, _ = a.Metadata() })
						case 13:
							st.call(21, "", func() { s.SetDefaultPayloadType(PayloadTypeWebRTCBinary) })
						default:
							// chaos streams: anything goes, no delivery oracle
							sid := uint16(100 + r.Intn(nChaos)) //nolint:gosec
							var cs *Stream
							st.call(11, "", func() { cs, _ = a.OpenStream(sid, PayloadTypeWebRTCString) })
							if cs == nil {
								continue
							}
							ensureReader(cs)
							switch r.Intn(5) {
							case 0:
								st.call(5, "", func() {
									cs.SetReliabilityParams(r.Intn(2) == 0, byte(r.Intn(3)), uint32(r.Intn(50))) //nolint:gosec
								})
							case 1:
								st.call(13, "", func() { _ = cs.Close() })
							default:
								turn(side, sid, func() {
									st.call(0, "chaos", func() { _, _ = cs.WriteSCTP(vfStormMsg(side, 99, sid, uint32(i), 16+r.Intn(3000)), PayloadTypeWebRTCString) }) //nolint:gosec
								})
							}
						}
						time.Sleep(time.Duration(r.Intn(4000)) * time.Microsecond)
					}
				}()
			}
			// acceptor: streams opened by the peer (chaos sids) are drained until they end
			wgAll.Add(1)
			go func() {
				defer wgAll.Done()
				for {
					var s *Stream
					var err error
					st.call(12, "", func() { s, err = a.AcceptStream() })
					if err != nil {
						return
					}
					if s.StreamIdentifier() >= 100 {
						ensureReader(s)
					}
				}
			}()
		}

		// ---- phase 1: writers finish, link heals, everything written must arrive
		wdone := make(chan struct{})
		go func() { wgWriters.Wait(); close(wdone) }()
		if vfWaitCh(wdone, 30*time.Minute) != nil {
			st.reportOpen("C20", "hang/writers", "writers did not finish within 30 min of virtual time")
		}
		sim.net.healNow()
		total := func() (int64, int64) {
			st.mu.Lock()
			defer st.mu.Unlock()
			var w int64
			for _, n := range st.written {
				w += int64(n)
			}

			return w, st.received
		}
		deadline := sim.net.now() + sim.healBound() + 5*time.Minute
		for {
			w, r := total()
			if r >= w {
				break
			}
			if sim.net.now() > deadline {
				res.violate("C02", "stall/after-heal", "storm: %d of %d messages delivered %v after the writers finished and the link healed", r, w, sim.healBound()+5*time.Minute)

				break
			}
			time.Sleep(50 * time.Millisecond)
		}
		w, r := total()
		res.count("c20_msgs_written", w)
		res.count("c20_msgs_delivered", r)
		if r > w {
			res.violate("C01", "deliver/duplicate", "storm: %d messages read, %d written", r, w)
		}

		// ---- phase 2: terminal storm while queries (and chaos writes) continue
		// late writers: writes that race with Shutdown/Close/Abort and mostly fail (roll-back path); their
		// messages are outside the delivery oracle's counts
		for side := 0; side < 2; side++ {
			side := side
			for lw := 0; lw < 2; lw++ {
				lw := lw
				wgAll.Add(1)
				go func() {
					defer wgAll.Done()
					lr := vfNewRand(vfHash(spec.Seed, uint64(side), uint64(lw), 0x1a7e))
					seqs := make([]uint32, nData)
					for i := 0; i < 400; i++ {
						select {
						case <-stop:
							return
						default:
						}
						di := lr.Intn(nData)
						s := data[side][di]
						seq := seqs[di]
						msg := vfStormMsg(side, 200+lw, uint16(1+di), seq, 16+lr.Intn(2000)) //nolint:gosec
						var err error
						turn(side, uint16(1+di), func() { //nolint:gosec
							st.call(0, "late", func() { _, err = s.WriteSCTP(msg, PayloadTypeWebRTCBinary) })
						})
						st.mu.Lock()
						st.lateLog = append(st.lateLog, fmt.Sprintf("late write side=%d writer=%d sid=%d seq=%d len=%d at %v state=%d -> %v", side, 200+lw, 1+di, seq, len(msg), sim.net.now(), assoc[side].getState(), err))
						st.mu.Unlock()
						if err == nil {
							seqs[di]++
						}
						st.call(6, "", func() { _ = s.BufferedAmount() })
						time.Sleep(time.Duration(lr.Intn(1500)) * time.Microsecond)
					}
				}()
			}
		}
		term := spec.XS["terminal"]
		var wgTerm sync.WaitGroup
		r0 := vfNewRand(spec.Seed ^ 0x7e)
		for side := 0; side < 2; side++ {
			a := assoc[side]
			for k := 0; k < int(spec.x("terminators", 3)); k++ {
				op := term[(side*3+k)%len(term)]
				d := time.Duration(r0.Intn(3)) * time.Millisecond
				side := side
				wgTerm.Add(1)
				go func() {
					defer wgTerm.Done()
					time.Sleep(d)
					switch op {
					case 's':
						st.call(18, fmt.Sprintf("side %d", side), func() {
							ctx, cancel := context.WithTimeout(context.Background(), 2*time.Minute)
							defer cancel()
							ev := sim.apiCall(side, "shutdown", 0)
							err := a.Shutdown(ctx)
							sim.apiRet(ev, 0, err)
						})
					case 'c':
						st.call(19, fmt.Sprintf("side %d", side), func() {
							ev := sim.apiCall(side, "aclose", 0)
							err := a.Close()
							sim.apiRet(ev, 0, err)
						})
					case 'a':
						st.call(20, fmt.Sprintf("side %d", side), func() {
							ev := sim.apiCall(side, "abort", 0)
							a.Abort("storm")
							sim.apiRet(ev, 0, nil)
						})
					}
				}()
			}
		}
		tdone := make(chan struct{})
		go func() { wgTerm.Wait(); close(tdone) }()
		if vfWaitCh(tdone, 10*time.Minute) != nil {
			st.reportOpen("C20", "hang/terminal", "Shutdown/Close/Abort calls did not all return within 10 min of virtual time")
		}
		close(stop)
		// whatever the terminal mix was, the application finally closes both sides
		sim.teardown()
		adone := make(chan struct{})
		go func() { wgAll.Wait(); close(adone) }()
		if vfWaitCh(adone, 10*time.Minute) != nil {
			st.reportOpen("C20", "hang/api-call", "API calls did not return within 10 min of virtual time after both associations were closed")
			vfAbortChild("storm goroutines stuck")
		}
		sim.finalLeakCheck()
		sim.runMonitors(vfMonCfg{looseAck: true})
		var nCalls int64
		kinds := 0
		for i := range vfStormKinds {
			if c := st.calls[i].Load(); c > 0 {
				nCalls += c
				kinds++
			}
		}
		sim.mu.Lock()
		order := sim.hookOrder
		sim.mu.Unlock()
		res.count("c20_api_calls", nCalls)
		res.count("c20_callbacks", st.cbRuns.Load())
		res.maxc("c20_max_overlapping_kinds", int64(st.maxKinds.Load()))
		res.count("c20_storms", 1)
		res.res.Evals = nCalls
		res.res.Nontrivial = st.maxKinds.Load() >= 4
		res.res.Sig = fmt.Sprintf("storm|%016x", order)
		res.res.Sample = map[string]any{
			"api_calls": nCalls, "api_kinds": kinds, "max_overlapping_kinds": st.maxKinds.Load(), "msgs_written": w, "msgs_delivered": r,
			"callbacks": st.cbRuns.Load(), "terminal": term, "hook_order_hash": fmt.Sprintf("%016x", order), "procs": spec.Procs, "yield_pm": spec.Yield,
		}
	})
}

func (st *vfStorm) reportOpen(prop, key, msg string) {
	n := 0
	first := ""
	st.open.Range(func(_, v any) bool {
		n++
		d := v.(string) //nolint:forcetypeassert
		blocking := len(d) >= 8 && (d[:8] == "ReadSCTP" || d[:8] == "AcceptSt")
		if first == "" || (!blocking && (first[:8] == "ReadSCTP" || first[:8] == "AcceptSt")) {
			first = d
		}
		st.res.witness("not returned: %s", v)

		return true
	})
	kind := first
	for i := 0; i < len(kind); i++ {
		if kind[i] == ' ' {
			kind = kind[:i]

			break
		}
	}
	for side, a := range []*Association{st.sim.A(), st.sim.B()} {
		if a == nil {
			continue
		}
		a.lock.Lock()
		sn := vfSnapLocked(a)
		st.res.witness("side %d at %v: state=%d cwnd=%d rwnd=%d inflight=%d/%dB pending=%d/%dB cum=%d next=%d peerLast=%d credit=%d t3=%v writePending=%v notifyTokens=%d reconfigs=%d",
			side, st.sim.net.now(), sn.State, sn.CWND, sn.RWND, sn.InflightN, sn.InflightB, sn.PendingN, sn.PendingB, sn.CumAck, sn.NextTSN,
			sn.PeerLastTSN, sn.Credit, a.t3RTX.isRunning(), a.writePending, len(a.writeNotify), len(a.reconfigs))
		a.lock.Unlock()
	}
	st.res.violate(prop, key+"/"+kind, "%s; %d call(s) in flight, e.g. %s", msg, n, first)
}

func vfGenStormSpecs(tier string, seed uint64, race bool) []vfSpec {
	n := vfTierN(tier, 120, 1500)
	if race {
		n = vfTierN(tier, 240, 3000)
	}
	out := make([]vfSpec, 0, n)
	terms := []string{"ccc", "sca", "aaa", "sss", "csa", "acs", "cca", "ssc"}
	for i := 0; i < n; i++ {
		salt := uint64(0xC20)
		if race {
			salt = 0xC20ACE
		}
		r := vfNewRand(vfHash(seed, uint64(i), salt))
		sp := vfSpec{Prop: "C20", Kind: "storm", ID: fmt.Sprintf("C20-storm-%d", i), Seed: r.Uint64()}
		sp.A, sp.B = vfSampleSides(r, 50)
		sp.A.MaxMsg, sp.B.MaxMsg = 0, 0
		for _, c := range []*vfSideCfg{&sp.A, &sp.B} {
			if c.MTU != 0 && c.MTU < 576 {
				c.MTU = 576
			}
			if c.RecvBuf != 0 && c.RecvBuf < 65536 {
				c.RecvBuf = 65536
			}
		}
		sp.A.BlockWrite = r.Intn(4) == 0
		sp.Roles = []string{"cs", "cs", "cc", "snap"}[r.Intn(4)]
		sp.Link = vfLinkCfg{DelayUs: int64(r.Pick(200, 2000, 20000)), LossPm: r.Pick(0, 10, 30, 80), DupPm: r.Pick(0, 0, 30), JitterUs: int64(r.Pick(0, 500, 5000))}
		sp.Procs = r.Pick(4, 8, 8, 16)
		sp.Yield = r.Pick(0, 100, 300)
		sp.X = map[string]int64{
			"data_streams": int64(1 + r.Intn(4)), "chaos_streams": int64(1 + r.Intn(3)), "writers": int64(2 + r.Intn(5)),
			"query": int64(1 + r.Intn(4)), "ops": int64(r.Pick(60, 150, 300)), "double_readers": int64(r.Pick(0, 0, 1)),
			"terminators": int64(1 + r.Intn(3)),
		}
		if race {
			sp.X["ops"] = int64(r.Pick(40, 100))
		}
		sp.XS = map[string]string{"terminal": terms[r.Intn(len(terms))]}
		out = append(out, sp)
	}

	return out
}

func init() { //nolint:gochecknoinits
	vfRegister(&vfProperty{
		id: "C20",
		list: func(tier string, seed uint64, race bool) []vfSpec {
			out := vfGenStormSpecs(tier, seed, race)
			// real-time storms: blocking-write mode with several writers per stream cannot run in virtual time
			n := vfTierN(tier, 14, 120)
			if race {
				n = vfTierN(tier, 24, 240)
			}
			for i := 0; i < n; i++ {
				r := vfNewRand(vfHash(seed, uint64(i), 0x2075))
				sp := vfSpec{Prop: "C20", Kind: "rt-storm", ID: fmt.Sprintf("C20-rt-%d", i), Seed: r.Uint64(), Procs: r.Pick(4, 8, 16)}
				sp.A.IL, sp.B.IL = i%2 == 1, i%2 == 1
				sp.X = map[string]int64{"rbuf": int64(r.Pick(4096, 16384, 65536)), "ops": int64(r.Pick(30, 60)), "run_ms": int64(r.Pick(500, 1200))}
				out = append(out, sp)
			}

			return out
		},
		run: func(t *testing.T, spec *vfSpec, res *vfRes) {
			if spec.Kind == "rt-storm" {
				vfRunRTStorm(t, spec, res)

				return
			}
			vfRunStorm(t, spec, res)
		},
	})
}
