#!/bin/bash
# tools/eval_all_par.sh [workers]  — like eval_all.sh, but on N scratch worktrees of /repo in parallel (/repo itself is not touched)
N=${1:-3}
cd /verif
ids=$(ls -d seeded/C*-m* | xargs -n1 basename)
for w in $(seq 1 $N); do
  wt=/tmp/wt-regress$w
  git -C /repo worktree remove --force $wt 2>/dev/null
  git -C /repo worktree add -q --detach $wt HEAD || exit 2
  (
    i=0
    for id in $ids; do
      i=$((i+1)); [ $((i % N)) -eq $((w % N)) ] || continue
      d=seeded/$id; p=${id%-m*}; k=${id#*-m}
      if [ -f $d/NOTE ]; then
        echo "$id: $(cat $d/NOTE)"
      elif git -C $wt apply --check /verif/$d/patch.diff 2>/dev/null; then
        extra=""; [ -f $d/extra_checks ] && extra=$(cat $d/extra_checks)
        MUT_REPO=$wt tools/eval_mutant.py $p $k $extra 2>&1 | cut -c1-220
      else
        echo "$id: patch no longer applies to /repo HEAD; earlier result kept"
      fi
    done
    git -C /repo worktree remove --force $wt
  ) > /tmp/evalall_w$w.log 2>&1 &
done
wait
cat /tmp/evalall_w*.log | sort
