#!/usr/bin/env python3
"""tools/eval_mutant.py Cxx k [extra check props...] — store the seeded change under /verif/seeded/Cxx-mk, apply it to /repo,
run the property's quick check (and any extra ones), record which checks fired, undo the change."""
import json, os, shutil, subprocess, sys, re
REPO = os.environ.get("MUT_REPO", "/repo")  # a scratch worktree of /repo lets a sweep of the unchanged tree run at the same time
p, k = sys.argv[1], sys.argv[2]
extra = sys.argv[3:]
src = "/tmp/wt-out/%s/m%s" % (p, k)
dst = "/verif/seeded/%s-m%s" % (p, k)
os.makedirs(dst, exist_ok=True)
for f in ("patch.diff", "demo_test.go", "meta.json", "confirm.json"):
    if os.path.isdir(src) and os.path.exists(os.path.join(src, f)):
        shutil.copy(os.path.join(src, f), os.path.join(dst, f))
assert subprocess.run(["git", "-C", REPO, "status", "--porcelain"], capture_output=True, text=True).stdout.strip() == "", REPO + " not clean"
subprocess.run(["git", "-C", REPO, "apply", os.path.join(dst, "patch.diff")], check=True)
results = {}
try:
    for prop in [p] + extra:
        env = dict(os.environ, VF_REPLAY_DIR="/tmp/mut-replays", VF_REPO=REPO)
        r = subprocess.run(["./check", prop, "--tier", "quick"], cwd="/verif", capture_output=True, text=True, env=env)
        keys = re.findall(r"^VIOLATION property=(\S+) replay=\S+\n\s+key=(\S+)", r.stdout, re.M)
        summ = [l for l in r.stdout.splitlines() if l.startswith("SUMMARY")]
        results[prop] = {"rc": r.returncode, "violations": ["%s %s" % kk for kk in keys][:12], "summary": summ[-1] if summ else "",
                         "broken": [l[:300] for l in r.stdout.splitlines() if l.startswith("BROKEN")][:3],
                         "foreign": [l[:200] for l in r.stdout.splitlines() if l.startswith("FOREIGN")][:6]}
finally:
    subprocess.run(["git", "-C", REPO, "checkout", "--", "."], check=True)
json.dump(results, open(os.path.join(dst, "result.json"), "w"), indent=1)
for prop, r in results.items():
    print(p, "m" + k, "check", prop, "rc", r["rc"], r["violations"][:4], r["broken"][:1], r["foreign"][:2])
