#!/usr/bin/env python3
"""known_findings.txt: the same content as known_findings.json, one line per entry in the brief's wording."""
import json, os
V = os.path.dirname(os.path.dirname(os.path.abspath(__file__)))
k = json.load(open(os.path.join(V, "known_findings.json")))
lines = ["# generated from known_findings.json by tools/gen_findings_txt.py; the checks read the JSON file (read-only at run time)"]
for f in k["findings"]:
    if f["status"] == "fixed":
        lines.append("fixed: property=%s %s [%s] %s" % (f["property"], f.get("commit", "?"), f["key"], f["what"]))
    else:
        lines.append("known: property=%s [%s] %s" % (f["property"], f["key"], f["what"]))
open(os.path.join(V, "known_findings.txt"), "w").write("\n".join(lines) + "\n")
print(len(lines) - 1, "entries")
