#!/bin/bash
# tools/confirm_mutant.sh Cxx k  — in the scratch worktree /tmp/wt-Cxx: the patch applies, the suite passes with it,
# the demo fails with it and passes without it. Writes /tmp/wt-out/Cxx/m<k>/confirm.json
p=$1; k=$2; wt=/tmp/wt-$p; d=/tmp/wt-out/$p/m$k
export GOPROXY=off
cd $wt || exit 2
git checkout -q -- . ; rm -f demo_test.go
applies=false; suite=false; demo_mut_fails=false; demo_orig_passes=false
if git apply --check $d/patch.diff 2>/dev/null; then
  applies=true
  git apply $d/patch.diff
  if go test -mod=mod -vet=off -count=1 -timeout 25m ./... >/tmp/wt-out/$p/m$k/suite.log 2>&1; then suite=true; fi
  cp $d/demo_test.go demo_test.go
  race=""; grep -q -- "-race" $d/meta.json && race="-race"
  if ! go test $race -mod=mod -vet=off -count=1 -timeout 5m -run TestMutantDemo . >/tmp/wt-out/$p/m$k/demo_mut.log 2>&1; then demo_mut_fails=true; fi
  git checkout -q -- .
  if go test $race -mod=mod -vet=off -count=1 -timeout 5m -run TestMutantDemo . >/tmp/wt-out/$p/m$k/demo_orig.log 2>&1; then demo_orig_passes=true; fi
  rm -f demo_test.go
fi
git checkout -q -- . ; rm -f demo_test.go
echo "{\"applies\":$applies,\"suite_passes\":$suite,\"demo_fails_on_mutant\":$demo_mut_fails,\"demo_passes_on_original\":$demo_orig_passes}" > $d/confirm.json
echo "$p m$k $(cat $d/confirm.json)"
