#!/usr/bin/env python3
"""For every `fixed` entry of known_findings.json: undo the fix commit in /repo's working tree (reverse patch), run the
property's quick check and report whether the recorded violation comes back; then restore the tree.
Exclusive use of /repo while it runs."""
import json, subprocess, re, sys
k = json.load(open('/verif/known_findings.json'))
seen = set()
out = {}
for f in k['findings']:
    if f['status'] != 'fixed':
        continue
    c, p, key = f['commit'], f['property'], f['key']
    if (c, p) in seen:
        continue
    seen.add((c, p))
    assert subprocess.run(['git', '-C', '/repo', 'status', '--porcelain'], capture_output=True, text=True).stdout.strip() == ''
    patch = subprocess.run(['git', '-C', '/repo', 'show', c, '--', '*.go'], capture_output=True, text=True).stdout
    r = subprocess.run(['git', '-C', '/repo', 'apply', '-R', '--3way', '-'], input=patch, capture_output=True, text=True)
    if r.returncode != 0:
        subprocess.run(['git', '-C', '/repo', 'reset', '-q', '--hard', 'HEAD'])
        print(p, c, 'reverse patch does not apply:', r.stderr.strip().splitlines()[-1] if r.stderr.strip() else '')
        out['%s %s' % (p, c)] = 'reverse patch does not apply'
        continue
    try:
        b = subprocess.run(['go', 'build', './...'], cwd='/repo', capture_output=True, text=True, env=dict(__import__('os').environ, GOPROXY='off', GOFLAGS='-mod=mod'))
        if b.returncode != 0:
            print(p, c, 'does not build after reverse patch')
            out['%s %s' % (p, c)] = 'does not build'
            continue
        rr = subprocess.run(['./check', p, '--tier', 'quick'], cwd='/verif', capture_output=True, text=True)
        keys = re.findall(r"^VIOLATION property=(\S+) replay=\S+\n\s+key=(\S+)", rr.stdout, re.M)
        own = [kk for pp, kk in keys if pp == p]
        pat = key[:-1] if key.endswith('*') else key
        hit = any(kk.startswith(pat) if key.endswith('*') else kk == key for kk in own)
        print(p, c, 'rc', rr.returncode, 'recorded key back:' , hit, own[:5])
        out['%s %s' % (p, c)] = {'rc': rr.returncode, 'recorded_key_back': hit, 'violations': own[:8]}
    finally:
        subprocess.run(['git', '-C', '/repo', 'reset', '-q', '--hard', 'HEAD'])
json.dump(out, open('/verif/seeded/unfix_results.json', 'w'), indent=1)
