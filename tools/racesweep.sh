#!/bin/bash
# race-only quick run of the given properties; prints summary + broken/violation heads
cd "$(dirname "$0")/.."
for p in "$@"; do
  VERIF_SEED=${SEED:-1} ./check $p --no-plain > /tmp/rs-$p.out 2>&1
  echo "== $p rc=$? $(grep -E '^SUMMARY' /tmp/rs-$p.out | tail -1)"
  grep -E '^(VIOLATION|BROKEN|KNOWN-FINDING|FOREIGN-OBSERVATION)' /tmp/rs-$p.out | cut -c1-200
done
