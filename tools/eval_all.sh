#!/bin/bash
# re-evaluate every seeded change against the current checks (sequential: /repo is modified while one runs)
cd /verif
R=${MUT_REPO:-/repo}
for d in seeded/C*-m*; do
  id=$(basename $d); p=${id%-m*}; k=${id#*-m}
  if [ -f $d/NOTE ]; then
    echo "$id: $(cat $d/NOTE)"
  elif git -C $R apply --check /verif/$d/patch.diff 2>/dev/null; then
    extra=""; [ -f $d/extra_checks ] && extra=$(cat $d/extra_checks)
    tools/eval_mutant.py $p $k $extra 2>&1 | cut -c1-220
  else
    echo "$id: patch no longer applies to /repo HEAD (was written against 58dbbc0); earlier result kept"
  fi
done
git -C $R status --short
