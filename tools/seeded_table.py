#!/usr/bin/env python3
import json, glob, os
rows = []
for d in sorted(glob.glob('/verif/seeded/C*-m*')):
    id = os.path.basename(d)
    try:
        meta = json.load(open(d + '/meta.json'))
    except Exception:
        meta = {}
    try:
        res = json.load(open(d + '/result.json'))
    except Exception:
        res = {}
    desc = (meta.get('description') or '').replace('\n', ' ').replace('|', '/')
    if len(desc) > 150:
        desc = desc[:147] + '...'
    files = ','.join(meta.get('files') or [])
    caught = []
    for prop, r in res.items():
        if r.get('rc') == 1:
            keys = sorted(set(v.split(' ', 1)[1] for v in r.get('violations', [])))[:3]
            caught.append('%s: %s' % (prop, ', '.join('`%s`' % k for k in keys)))
    rows.append('| %s | %s | %s | %s |' % (id, files, desc, '; '.join(caught) if caught else '**missed**'))
print('| id | file | change | caught by (quick tier) |')
print('|----|------|--------|------------------------|')
print('\n'.join(rows))
