#!/usr/bin/env python3
"""Regenerate MANIFEST.json from props.json (one source of truth for level/rule/assumptions)."""
import json, os, subprocess
V = os.path.dirname(os.path.dirname(os.path.abspath(__file__)))
props = json.load(open(os.path.join(V, "props.json")))
TECH = {
 "C01": "runtime monitoring: API-history delivery oracle (hash-identified messages) + wire monitors over simulated executions in virtual time; race-detector slice",
 "C02": "runtime monitoring: bounded-progress oracle in virtual time after the link heals + wire monitors; race-detector slice",
 "C03": "runtime monitoring: hostile packets injected at quiescent points of live associations; deep-state snapshot diff, wire and API observers, crash/hang attribution per injected packet",
 "C04": "runtime monitoring: wire monitor of the handshake (independent decoder) under enumerated packet faults + API observers of the connect calls in virtual time",
 "C05": "runtime monitoring: wire-shadow receiver model checks every emitted SACK; structural invariant walker on the receive queue at hooks; randomized programs on the real receivePayloadQueue against a set model",
 "C06": "runtime monitoring: API-history oracle for partial reliability (abandon only after the limit, never partial delivery) + wire monitors",
 "C07": "runtime monitoring: wire monitor of FORWARD-TSN / I-FORWARD-TSN entries against the wire shadow, hook invariant on the advanced peer ack point",
 "C08": "runtime monitoring: shutdown state-matrix and packet-fault enumeration over live associations; API-return and wire observers in virtual time",
 "C09": "runtime monitoring: close/abort/transport-failure injection at enumerated instants; every blocked call observed to return, goroutine-leak scan, write-after-close counter",
 "C10": "runtime monitoring: admission hooks (snapshot under a.lock) + wire-shadow outstanding bytes vs cwnd/rwnd, T3 and fast-recovery hook pairs",
 "C11": "runtime monitoring: advertised-window wire monitor + final credit accounting at quiescent points; puppet peer violating the window",
 "C12": "runtime monitoring: independent decoder over every emitted packet, decode/re-encode stability on generated and emitted packets, bundling differential",
 "C13": "runtime monitoring: corrupted / zero-checksum packets injected with virtual time frozen; deep-state diff and packet counters; send-side checksum monitor",
 "C14": "runtime monitoring: stream-reset programs on live associations; API history per incarnation, wire monitor of RECONFIG sequence numbers, duplicate/reordered request injection",
 "C15": "runtime monitoring: buffered-amount shadow from the wire (bytes written - bytes acknowledged) sampled at quiescent points; callback counter and re-entrancy probe",
 "C16": "runtime monitoring: serial-number helpers exhaustively around the wrap + lock-step differential of whole associations shifted across the 2^32 / 2^16 wrap",
 "C17": "runtime monitoring: scheduler programs on the real pendingQueue with conservation/fairness oracles; wire monitor of chunk kinds and fragment layout; wrong-kind injection",
 "C18": "runtime monitoring: scripted API call programs in virtual time; return values, wire and delivery history observed; white-box pending-queue read at return",
 "C19": "runtime monitoring: RTO manager against an independent RFC model on seeded sample sequences; exact timer model in virtual time; wire/hook timing monitors under blackout; ack-promptness obligations",
 "C20": "sanitizer + runtime monitoring: Go race detector over API storms (parallel goroutines, virtual time), deadlock watchdog with stack classifier, every-call-returns oracle, per-writer delivery oracle",
}
CAT = {"exploration": "exploration", "fault_enumeration": "fault_enumeration"}
hook_commits = ["6807719", "cbbdd77"]
checks = []
for pid in sorted(props):
    m = props[pid]
    checks.append({
        "property_id": pid,
        "quick_cmd": "./check %s --tier quick" % pid,
        "thorough_cmd": "./check %s --tier thorough" % pid,
        "evidence_file": "/verif/evidence/%s.json" % pid,
        "replay_cmd_template": "./check %s --replay {path}" % pid,
        "engine": "vf-harness",
        "level_claimed": {"category": CAT.get(m.get("level", "exploration"), "exploration"), "text": m["rule"], "design_ref": "DESIGN.md section 5 " + pid},
        "level_note": "executions produced only (scenario list is a pure function of tier and VERIF_SEED); go1.26.8 testing/synctest virtual clock; " + "; ".join(m.get("assumptions", [])),
        "technique": TECH[pid],
    })
allp = [json.loads(l)["id"] for l in open(os.path.join(V, "properties.jsonl"))]
na = [{"property_id": p, "reason": "check not built"} for p in allp if p not in props]
man = {
 "version": 1,
 "setup_cmd": "./setup.sh",
 "hooks": {
  "guard": "verif",
  "enable": "go1.26.8 test -c -tags verif [-race] on a scratch copy of /repo's working tree with /verif/harness/*.go copied in as zz_vf_*_test.go",
  "baseline_off_cmd": "cd /repo && GOPROXY=off go test -mod=mod -json -vet=off -count=1 -timeout 25m ./...",
  "source_commits": hook_commits,
  "add_only": True,
 },
 "engines": [{
  "name": "vf-harness", "path": "/verif/harness", "serves_properties": sorted(props),
  "kind_free_text": "in-package Go runtime monitors driven by /verif/check: synctest virtual-time simulation of real associations over a faulty simulated net.Conn, child process per shard with journal and watchdog, independent wire decoder, wire-shadow oracles, structural invariant walker at build-tagged hooks, API history checker, Go race detector on a seeded slice (all of C20)",
 }],
 "checks": checks,
 "notes": "Known findings and repaired defects: /verif/known_findings.json. Exit codes of ./check: 0 held, 1 violation (VIOLATION line), 2 broken. FOREIGN-OBSERVATION lines name violations of other properties seen while running a check; they do not affect the exit code and are decided by that property's own check.",
 "not_applicable": na,
}
json.dump(man, open(os.path.join(V, "MANIFEST.json"), "w"), indent=1)
print("checks", len(checks), "not_applicable", len(na))
