#!/bin/bash
# usage: tools/sweep.sh <seed> [tier] [props...]   — runs the checks one after the other, prints the summary lines
seed=${1:-1}; tier=${2:-quick}; shift; shift
props=${@:-C01 C02 C03 C04 C05 C06 C07 C08 C09 C10 C11 C12 C13 C14 C15 C16 C17 C18 C19 C20}
cd "$(dirname "$0")/.."
for p in $props; do
  VERIF_SEED=$seed ./check $p --tier $tier > /tmp/sweep-$seed-$p.out 2>&1; rc=$?
  echo "rc=$rc $(grep -E '^SUMMARY' /tmp/sweep-$seed-$p.out | tail -1)"
  grep -E '^(VIOLATION|BROKEN|KNOWN-FINDING|FOREIGN-OBSERVATION)' /tmp/sweep-$seed-$p.out | cut -c1-260
done
