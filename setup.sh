#!/bin/sh
# Warm the Go build cache (std plain and race for go1.26.8) and check the toolchain. Offline.
set -e
export GOFLAGS=-mod=mod GOPROXY=off GOSUMDB=off GOTOOLCHAIN=local
cd "$(dirname "$0")"
go1.26.8 version
go1.26.8 build std
go1.26.8 build -race std
chmod +x ./check
echo setup ok
